//! E4 - log / error capture. A `tracing` subscriber that formats every event of every level
//! (target, level, message, all fields) into a thread-local buffer, plus a sink for the `Display`
//! and `Debug` renderings of every error / processing result the harness receives, plus a
//! registry of the secrets the harness learns while driving the library.

use std::cell::RefCell;
use std::fmt::Write as _;

use tracing::field::{Field, Visit};
use tracing::span::{Attributes, Id, Record};
use tracing::{Event, Metadata, Subscriber};

#[derive(Clone, Debug)]
pub struct LogLine {
    pub target: String,
    pub level: String,
    pub text: String,
    /// message template (callsite identity): file:line + static message name
    pub site: String,
}

#[derive(Default)]
pub struct Capture {
    pub active: bool,
    pub logs: Vec<LogLine>,
    /// (origin, rendering)
    pub values: Vec<(String, String)>,
    /// (class, raw bytes)
    pub secrets: Vec<(String, Vec<u8>)>,
}

thread_local! {
    pub static CAP: RefCell<Capture> = RefCell::new(Capture::default());
}

struct V<'a>(&'a mut String);
impl Visit for V<'_> {
    fn record_debug(&mut self, field: &Field, value: &dyn std::fmt::Debug) {
        let _ = write!(self.0, " {}={:?}", field.name(), value);
    }
    fn record_str(&mut self, field: &Field, value: &str) {
        let _ = write!(self.0, " {}={}", field.name(), value);
    }
}

pub struct CaptureSubscriber;

impl Subscriber for CaptureSubscriber {
    fn enabled(&self, _metadata: &Metadata<'_>) -> bool {
        true
    }
    fn new_span(&self, _span: &Attributes<'_>) -> Id {
        Id::from_u64(1)
    }
    fn record(&self, _span: &Id, _values: &Record<'_>) {}
    fn record_follows_from(&self, _span: &Id, _follows: &Id) {}
    fn event(&self, event: &Event<'_>) {
        if trace_to_stderr() && *event.metadata().level() <= tracing::Level::DEBUG && event.metadata().target().starts_with("mdk") {
            let mut text = String::new();
            event.record(&mut V(&mut text));
            eprintln!("      LOG {} {}{}", event.metadata().level(), event.metadata().target(), text);
        }
        CAP.with(|c| {
            let Ok(mut c) = c.try_borrow_mut() else { return };
            if !c.active {
                return;
            }
            let md = event.metadata();
            let mut text = String::new();
            event.record(&mut V(&mut text));
            let site = format!("{}:{}", md.file().unwrap_or("?"), md.line().unwrap_or(0));
            if c.logs.len() < 200_000 {
                c.logs.push(LogLine { target: md.target().to_string(), level: md.level().to_string(), text, site });
            }
        });
    }
    fn enter(&self, _span: &Id) {}
    fn exit(&self, _span: &Id) {}
}

/// VERIF_TRACE=1: library log records (DEBUG and up) and simulator notes go to stderr as they happen
pub fn trace_to_stderr() -> bool {
    static ON: std::sync::OnceLock<bool> = std::sync::OnceLock::new();
    *ON.get_or_init(|| std::env::var("VERIF_TRACE").is_ok())
}

pub fn install() {
    static ONCE: std::sync::Once = std::sync::Once::new();
    ONCE.call_once(|| {
        let _ = tracing::subscriber::set_global_default(CaptureSubscriber);
    });
}

pub fn start() {
    CAP.with(|c| {
        let mut c = c.borrow_mut();
        c.active = true;
        c.logs.clear();
        c.values.clear();
        c.secrets.clear();
    });
}

pub fn stop() -> Capture {
    CAP.with(|c| {
        let mut c = c.borrow_mut();
        c.active = false;
        std::mem::take(&mut *c)
    })
}

pub fn is_active() -> bool {
    CAP.with(|c| c.try_borrow().map(|c| c.active).unwrap_or(false))
}

/// Record the Display and Debug renderings of a value returned by the library.
pub fn value<T: std::fmt::Debug>(origin: &str, v: &T) {
    if !is_active() {
        return;
    }
    let dbg = format!("{v:?}");
    let pretty = format!("{v:#?}");
    CAP.with(|c| {
        let mut c = c.borrow_mut();
        if c.values.len() < 100_000 {
            c.values.push((format!("{origin}:debug"), dbg));
            c.values.push((format!("{origin}:debug-alt"), pretty));
        }
    });
}

pub fn error<E: std::fmt::Debug + std::fmt::Display>(origin: &str, e: &E) {
    if !is_active() {
        return;
    }
    let d = format!("{e}");
    let dbg = format!("{e:?}");
    CAP.with(|c| {
        let mut c = c.borrow_mut();
        if c.values.len() < 100_000 {
            c.values.push((format!("{origin}:display"), d));
            c.values.push((format!("{origin}:debug"), dbg));
        }
    });
}

pub fn secret(class: &str, bytes: &[u8]) {
    if !is_active() || bytes.len() < 8 {
        return;
    }
    CAP.with(|c| {
        let mut c = c.borrow_mut();
        if !c.secrets.iter().any(|(_, b)| b == bytes) {
            c.secrets.push((class.to_string(), bytes.to_vec()));
        }
    });
}

/// All renderings of a secret that a log line or error string could contain.
pub fn needles(class: &str, b: &[u8]) -> Vec<(String, String)> {
    let mut v = vec![];
    let dec = |x: &[u8]| x.iter().map(|n| n.to_string()).collect::<Vec<_>>().join(", ");
    v.push((format!("{class}:hex"), hex::encode(b)));
    v.push((format!("{class}:HEX"), hex::encode_upper(b)));
    v.push((format!("{class}:byte-list"), dec(b)));
    if b.len() > 8 {
        // 8-byte windows at both ends (a truncated rendering still identifies the value)
        v.push((format!("{class}:hex-prefix8"), hex::encode(&b[..8])));
        v.push((format!("{class}:hex-suffix8"), hex::encode(&b[b.len() - 8..])));
        v.push((format!("{class}:byte-list-prefix8"), dec(&b[..8])));
    }
    v
}
