//! vcheck - runtime-monitoring checks for marmot-protocol/mdk (one sub-command per property).
#![allow(clippy::too_many_arguments, clippy::type_complexity)]

#[cfg(feature = "full")]
mod capture;
mod par;
mod report;
mod rng;
mod util;
mod vstore;
#[cfg(feature = "full")]
mod sim;
#[cfg(feature = "full")]
mod props;

use std::path::PathBuf;
use std::time::Instant;

use report::{Ctx, Tier};

fn usage() -> ! {
    eprintln!("usage: vcheck <C01..C20|aux> [--tier quick|thorough] [--seed N] [--replay path] [--threads N] [--verif-dir /verif]");
    std::process::exit(2)
}

fn main() {
    // panics are observations here (catch_unwind around library calls): keep stderr readable
    if std::env::var("VERIF_BACKTRACE").is_err() {
        std::panic::set_hook(Box::new(|info| {
            let msg = info.payload().downcast_ref::<&str>().map(|s| s.to_string()).or_else(|| info.payload().downcast_ref::<String>().cloned()).unwrap_or_default();
            if !msg.starts_with("verif: injected panic") && !msg.contains("PoisonError") {
                eprintln!("panic: {} at {}", msg, info.location().map(|l| format!("{}:{}", l.file(), l.line())).unwrap_or_default());
            }
        }));
    }
    let args: Vec<String> = std::env::args().skip(1).collect();
    if args.is_empty() {
        usage();
    }
    let prop = args[0].clone();
    let mut tier = match std::env::var("VERIF_TIER").as_deref() {
        Ok("thorough") => Tier::Thorough,
        _ => Tier::Quick,
    };
    let mut seed: u64 = std::env::var("VERIF_SEED").ok().and_then(|s| s.parse().ok()).unwrap_or(1);
    let mut threads: usize = std::env::var("VERIF_THREADS").ok().and_then(|s| s.parse().ok()).unwrap_or_else(|| std::thread::available_parallelism().map(|n| n.get()).unwrap_or(4).min(16));
    let mut verif_dir = PathBuf::from(std::env::var("VERIF_DIR").unwrap_or_else(|_| "/verif".into()));
    let mut replay = None;
    let mut rest: Vec<String> = vec![];
    let mut i = 1;
    while i < args.len() {
        match args[i].as_str() {
            "--tier" => {
                i += 1;
                tier = match args.get(i).map(|s| s.as_str()) {
                    Some("quick") => Tier::Quick,
                    Some("thorough") => Tier::Thorough,
                    _ => usage(),
                };
            }
            "--seed" => {
                i += 1;
                seed = args.get(i).and_then(|s| s.parse().ok()).unwrap_or_else(|| usage());
            }
            "--threads" => {
                i += 1;
                threads = args.get(i).and_then(|s| s.parse().ok()).unwrap_or_else(|| usage());
            }
            "--verif-dir" => {
                i += 1;
                verif_dir = PathBuf::from(args.get(i).cloned().unwrap_or_else(|| usage()));
            }
            "--replay" => {
                i += 1;
                replay = Some(PathBuf::from(args.get(i).cloned().unwrap_or_else(|| usage())));
            }
            other => rest.push(other.to_string()),
        }
        i += 1;
    }
    // --replay <witness file>: re-run exactly the scenario the witness came from - its seed, tier
    // and scenario index are in the file (storage-level witnesses of C09/C10/C18 carry the complete
    // operation list and are replayed bit-exactly by their own code)
    if let Some(p) = &replay
        && let Ok(text) = std::fs::read_to_string(p)
        && let Ok(j) = serde_json::from_str::<serde_json::Value>(&text)
    {
        if let Some(s) = j.get("seed").and_then(|x| x.as_u64()) {
            seed = s;
        }
        if j.get("tier").and_then(|x| x.as_str()) == Some("thorough") {
            tier = Tier::Thorough;
        }
        let r = j.get("replay").cloned().unwrap_or_default();
        let idx = r.get("scenario").or_else(|| r.get("round")).and_then(|x| x.as_u64());
        if let Some(i) = idx {
            // single-threaded here: no other thread reads the environment yet
            unsafe {
                if r.get("kind").and_then(|x| x.as_str()) == Some("c02win") {
                    std::env::set_var("VERIF_WIN_ONLY", i.to_string());
                    std::env::set_var("VERIF_ONLY", u64::MAX.to_string());
                } else {
                    std::env::set_var("VERIF_ONLY", i.to_string());
                }
            }
            eprintln!("replaying scenario {i} of seed {seed} ({})", j.get("signature").and_then(|x| x.as_str()).unwrap_or(""));
        } else {
            eprintln!("the witness names no scenario index: re-running the whole check with its seed {seed}");
        }
    }
    #[cfg(feature = "full")]
    if capture::trace_to_stderr() {
        capture::install();
    }
    let scale: f64 = std::env::var("VERIF_SCALE").ok().and_then(|s| s.parse().ok()).unwrap_or(1.0);
    let ctx = Ctx { prop: prop.clone(), tier, seed, threads, verif_dir, replay, started: Instant::now(), scale };
    // A library call that never returns (a deadlock) would hang the check instead of giving a verdict:
    // while scenarios run, a monitor watches the threads of this process (vstore/stall.rs) and ends the
    // run with a violation when all of them are blocked without consuming CPU. Separately, a generous
    // wall-clock watchdog ends a run that merely takes too long as inconclusive (exit 0).
    #[cfg(all(feature = "full", not(miri)))]
    if !prop.contains('-') {
        let c1 = ctx.clone();
        vstore::stall::spawn_monitor(std::time::Duration::from_secs(30), move |_label, detail| {
            let stuck = par::running();
            let mut out = report::Outcome::default();
            out.evaluations = par::DONE.load(std::sync::atomic::Ordering::SeqCst);
            out.violation(
                format!("{}|library-call-never-returned|all-threads-blocked", c1.prop),
                format!("after {} finished scenarios the scenario(s) {:?} never came back: {detail}", out.evaluations, stuck),
                serde_json::json!({"scenario": stuck.first(), "stuck_scenarios": stuck}),
            );
            let code = report::finish(&c1, "exploration", "EMERGENCY END: the run was cut short by the stall monitor; counters of the finished scenarios are not included", out, vec![], vec![], serde_json::json!({}));
            std::process::exit(code);
        });
        let c2 = ctx.clone();
        let limit = std::time::Duration::from_secs(c2.tier.pick(45 * 60, 5 * 3600) as u64);
        std::thread::spawn(move || {
            std::thread::sleep(limit);
            let mut out = report::Outcome::default();
            out.evaluations = par::DONE.load(std::sync::atomic::Ordering::SeqCst);
            out.inconclusive.push(format!("wall-clock watchdog: the check did not finish within {} s (scenarios still running: {:?}); no verdict", limit.as_secs(), par::running()));
            let code = report::finish(&c2, "exploration", "EMERGENCY END: wall-clock watchdog", out, vec![], vec![], serde_json::json!({}));
            std::process::exit(code);
        });
    }
    #[cfg(feature = "full")]
    {
        let code = props::dispatch(&ctx, &rest);
        std::process::exit(code);
    }
    #[cfg(not(feature = "full"))]
    {
        // Miri build: memory backend only, synthetic values, threads
        let _ = rest;
        std::process::exit(vstore::miri_main::run(&ctx));
    }
}
