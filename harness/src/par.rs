//! Run scenarios on worker threads and merge their outcomes.

use std::sync::Mutex;
use std::sync::atomic::{AtomicU64, Ordering};
use std::time::{Duration, Instant};

use crate::report::{Ctx, Outcome};
use crate::rng::Rng;

/// Runs `n` scenarios; scenario `i` gets `Rng::for_scenario(seed, prop, i)`. A panic inside the
/// scenario closure itself (harness bug or library panic not caught by the scenario) is reported
/// through `on_panic`.
pub fn run<F>(ctx: &Ctx, n: u64, deadline: Duration, f: F) -> Outcome
where
    F: Fn(u64, &mut Rng, &mut Outcome) + Sync,
{
    // VERIF_ONLY=<i> (set by hand or by --replay): run scenario i alone
    let only: Option<u64> = std::env::var("VERIF_ONLY").ok().and_then(|s| s.parse().ok());
    if let Some(i) = only.filter(|i| *i < n) {
        let _section = crate::vstore::stall::section("scenarios");
        running_set(i, true);
        let mut rng = Rng::for_scenario(ctx.seed, &ctx.prop, i);
        let mut o = Outcome::default();
        let r = std::panic::catch_unwind(std::panic::AssertUnwindSafe(|| f(i, &mut rng, &mut o)));
        tag_scenario(&mut o, i);
        if let Err(p) = r {
            let msg = panic_msg(&p);
            o.violation(format!("{}|panic|{}", ctx.prop, crate::util::first_words(&msg, 12)), format!("panic in scenario {i}: {msg}"), serde_json::json!({"scenario": i, "seed": ctx.seed, "panic": msg}));
        }
        return o;
    } else if only.is_some() {
        return Outcome::default();
    }
    let _section = crate::vstore::stall::section("scenarios");
    let next = AtomicU64::new(0);
    let total = Mutex::new(Outcome::default());
    let start = Instant::now();
    let stopped_early = AtomicU64::new(0);
    std::thread::scope(|s| {
        for _ in 0..ctx.threads.max(1) {
            s.spawn(|| {
                let mut local = Outcome::default();
                loop {
                    let i = next.fetch_add(1, Ordering::SeqCst);
                    if i >= n {
                        break;
                    }
                    if start.elapsed() > deadline {
                        stopped_early.fetch_add(1, Ordering::SeqCst);
                        break;
                    }
                    let mut rng = Rng::for_scenario(ctx.seed, &ctx.prop, i);
                    running_set(i, true);
                    let r = std::panic::catch_unwind(std::panic::AssertUnwindSafe(|| {
                        let mut o = Outcome::default();
                        f(i, &mut rng, &mut o);
                        o
                    }));
                    running_set(i, false);
                    DONE.fetch_add(1, Ordering::SeqCst);
                    match r {
                        Ok(mut o) => {
                            tag_scenario(&mut o, i);
                            local.merge(o)
                        }
                        Err(p) => {
                            let msg = panic_msg(&p);
                            local.evaluations += 1;
                            local.violation(
                                format!("{}|panic|{}", ctx.prop, crate::util::first_words(&msg, 12)),
                                format!("panic in scenario {i}: {msg}"),
                                serde_json::json!({"scenario": i, "seed": ctx.seed, "panic": msg}),
                            );
                        }
                    }
                }
                total.lock().unwrap().merge(local);
            });
        }
    });
    let mut out = total.into_inner().unwrap();
    if stopped_early.load(Ordering::SeqCst) > 0 {
        out.info.push(format!("wall-clock budget reached after {} scenarios of {}", out.evaluations, n));
    }
    out
}

/// scenarios finished / currently inside their closure (read by the process-wide stall monitor)
pub static DONE: AtomicU64 = AtomicU64::new(0);
static RUNNING: Mutex<std::collections::BTreeSet<u64>> = Mutex::new(std::collections::BTreeSet::new());

fn running_set(i: u64, on: bool) {
    if let Ok(mut r) = RUNNING.lock() {
        if on {
            r.insert(i);
        } else {
            r.remove(&i);
        }
    }
}

pub fn running() -> Vec<u64> {
    RUNNING.lock().map(|r| r.iter().copied().collect()).unwrap_or_default()
}

/// every witness names the scenario it came from (what `--replay` re-runs)
pub fn tag_scenario(o: &mut Outcome, i: u64) {
    for v in &mut o.violations {
        match &mut v.replay {
            serde_json::Value::Object(m) => {
                m.entry("scenario").or_insert(serde_json::json!(i));
            }
            other => {
                let old = other.take();
                *other = serde_json::json!({"scenario": i, "witness": old});
            }
        }
    }
}

pub fn panic_msg(p: &Box<dyn std::any::Any + Send>) -> String {
    if let Some(s) = p.downcast_ref::<&str>() {
        s.to_string()
    } else if let Some(s) = p.downcast_ref::<String>() {
        s.clone()
    } else {
        "non-string panic".to_string()
    }
}
