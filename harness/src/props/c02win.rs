//! C02, windows half: heavy reordering of one sender's application messages inside and outside
//! the configured out-of-order / forward-distance / past-epoch windows, with default and
//! non-default `MdkConfig` values, at a receiver that created the group, one that was in it from
//! the start and one that joined through a welcome (the two code paths that hand the windows to
//! OpenMLS).
//!
//! A 30-line model of the receiving ratchet decides for every message whether its FIRST delivery
//! was inside the windows ("due"), outside, or exactly on a boundary (never generated). Due
//! messages must end stored exactly once, intact and Processed; the others must merely not be
//! duplicated or altered.

use std::collections::{BTreeMap, BTreeSet};

use mdk_core::prelude::*;
use mdk_storage_traits::groups::Pagination;
use serde_json::json;

use crate::report::Outcome;
use crate::rng::Rng;
use crate::sim::scenario::*;
use crate::sim::*;
use crate::with_mdk;

/// receiving ratchet of one (receiver, sender, epoch): head = next unseen generation
struct Ratchet {
    head: u64,
    used: BTreeSet<u64>,
}

#[derive(Clone, Copy, PartialEq, Debug)]
enum Verdict {
    Due,
    OutsideWindow,
}

impl Ratchet {
    /// classify the first delivery of generation `g`; None = exactly on a boundary (caller avoids it)
    fn classify(&self, g: u64, ooo: u64, mfd: u64) -> Option<Verdict> {
        if g >= self.head {
            let dist = g - self.head;
            if dist + 1 < mfd { Some(Verdict::Due) } else if dist > mfd + 1 { Some(Verdict::OutsideWindow) } else { None }
        } else {
            let back = self.head - g;
            if self.used.contains(&g) {
                return Some(Verdict::OutsideWindow);
            }
            if back + 1 < ooo { Some(Verdict::Due) } else if back > ooo + 1 { Some(Verdict::OutsideWindow) } else { None }
        }
    }
    fn apply(&mut self, g: u64, v: Verdict) {
        if v == Verdict::Due {
            self.used.insert(g);
            if g >= self.head {
                self.head = g + 1;
            }
        }
    }
}

pub fn trial(i: u64, rng: &mut Rng, out: &mut Outcome, dir: &std::path::Path) {
    // (out_of_order_tolerance, maximum_forward_distance, burst length); every fifth trial uses
    // values ABOVE the defaults (100 / 1000) so that a code path that silently falls back to the
    // defaults loses messages that the configuration promises
    let (ooo, mfd, k): (u64, u64, usize) = match i % 10 {
        0 => (130, 1000, 150),
        5 => (100, 1100, 1130),
        1 | 6 => (100, 1000, 130), // the defaults, with reordering beyond 100 back
        2 | 7 => (8, 20, 40),
        3 | 8 => (4, 30, 45),
        _ => (12, 6, 30),
    };
    let past: usize = *rng.pick(&[1usize, 2, 3, 5]);
    let mut cfg = mdk_core::MdkConfig::default();
    cfg.out_of_order_tolerance = ooo as u32;
    cfg.maximum_forward_distance = mfd as u32;
    cfg.max_past_epochs = past;
    let backend = if i % 7 == 3 { BackendKind::Sqlite } else { BackendKind::Memory };
    let mut w = World::empty(dir.to_path_buf(), format!("c02win-{i}"));
    let a = w.add_client(BackendKind::Memory, cfg.clone(), rng);
    let b = w.add_client(backend, cfg.clone(), rng);
    let g = w.create_group(&[a, b], &[a], None, "windows");
    w.t += 2;
    // c joins through a welcome
    let Some(add) = w.act_commit(a, g, &CommitKind::Add, w.t, OwnMode::Immediate, 0, rng) else {
        w.cleanup();
        return;
    };
    let c = w.log[add].welcomes.first().map(|x| x.0);
    w.deliver(b, add, OwnMode::Echo);
    let Some(c) = c else {
        w.cleanup();
        return;
    };
    if !w.join(c, add) {
        w.cleanup();
        return;
    }
    out.evaluations += 1;
    let everyone = [a, b, c];
    let sender = *rng.pick(&everyone);
    let receivers: Vec<usize> = everyone.iter().copied().filter(|x| *x != sender).collect();
    // the burst: k messages of one sender in one epoch; generation = position
    let mut burst: Vec<usize> = vec![];
    for _ in 0..k {
        w.t += 1;
        if let Some(idx) = w.act_message(sender, g, w.base_ts + rng.below(3) as u64) {
            burst.push(idx);
        }
    }
    if burst.len() != k {
        w.cleanup();
        return;
    }
    let mut verdicts: BTreeMap<(usize, usize), Verdict> = BTreeMap::new(); // (receiver, generation) -> first-delivery verdict
    let mut labels: BTreeSet<String> = BTreeSet::new();
    // how many commits pass before the second half of the deliveries (past-epoch window)
    let commits_between = rng.below(past + 3);
    for &r in &receivers {
        let mut rt = Ratchet { head: 0, used: BTreeSet::new() };
        let n_first = rng.range(6, 14.min(k));
        let mut plan: Vec<u64> = vec![];
        // forced opening moves (forward?, lo, hi) that land well inside the CONFIGURED windows but
        // outside what the defaults - or the two ratchet parameters swapped - would allow
        let forced: Vec<(bool, u64, u64)> = match i % 10 {
            0 => vec![(true, 135, 146), (false, 105, 125)],
            5 => vec![(true, 1010, 1090)],
            1 | 6 => vec![(true, 105, 125), (false, 30, 90)],
            2 | 7 => vec![(true, 10, 17), (false, 3, 5)],
            3 | 8 => vec![(true, 10, 26), (false, 1, 2)],
            _ => vec![(true, 4, 4), (true, 4, 4), (true, 4, 4), (true, 4, 4), (false, 8, 10)],
        };
        for (fwd, lo, hi) in forced {
            let d = lo + rng.below((hi - lo + 1) as usize) as u64;
            let g0 = if fwd { rt.head + d } else { rt.head.saturating_sub(d) };
            if g0 >= k as u64 || verdicts.contains_key(&(r, g0 as usize)) {
                continue;
            }
            let Some(v) = rt.classify(g0, ooo, mfd) else { continue };
            rt.apply(g0, v);
            verdicts.insert((r, g0 as usize), v);
            plan.push(g0);
            out.count(if fwd { "c02win_forced_forward_jumps" } else { "c02win_forced_back_steps" });
        }
        let mut guard = 0;
        while plan.len() < n_first && guard < 400 {
            guard += 1;
            // candidate generations: far forward, a little forward, a little back, far back
            let g0 = match rng.below(6) {
                0 => rt.head + rng.below(mfd.min(k as u64) as usize + 4) as u64,
                1 => rt.head + rng.below(3) as u64,
                2 => rt.head.saturating_sub(1 + rng.below(ooo as usize + 4) as u64),
                3 => rt.head.saturating_sub(1 + rng.below(3) as u64),
                4 => rt.head + mfd + 2 + rng.below(3) as u64,
                _ => rng.below(k) as u64,
            };
            if g0 >= k as u64 || verdicts.contains_key(&(r, g0 as usize)) {
                continue;
            }
            let Some(v) = rt.classify(g0, ooo, mfd) else { continue };
            rt.apply(g0, v);
            verdicts.insert((r, g0 as usize), v);
            plan.push(g0);
        }
        for gn in &plan {
            let d = w.deliver(r, burst[*gn as usize], OwnMode::Echo);
            let v = verdicts[&(r, *gn as usize)];
            out.note("c02win_first_delivery", format!("{v:?} -> {}", d.class));
            if rng.chance(15) {
                w.deliver(r, burst[*gn as usize], OwnMode::Echo); // duplicate
            }
        }
        labels.insert(format!("r{}:{}", if r == a { "creator" } else if r == c { "joiner" } else { "member" }, plan.len()));
    }
    // commits in between: everybody applies them
    let mut ok_commits = 0;
    for _ in 0..commits_between {
        w.t += 2;
        if let Some(ci) = w.act_commit(a, g, &CommitKind::Rename, w.t, OwnMode::Immediate, rng.next() % 1000, rng) {
            for m in [b, c] {
                w.deliver(m, ci, OwnMode::Echo);
            }
            ok_commits += 1;
        }
    }
    // second half: a few more first deliveries, now `ok_commits` epochs late
    for &r in &receivers {
        let mut rt = Ratchet { head: 0, used: BTreeSet::new() };
        // rebuild the ratchet model of this receiver from the verdicts so far (in generation order
        // this is NOT the delivery order, so rebuild only what matters: head and used set)
        for ((rr, gn), v) in &verdicts {
            if *rr == r && *v == Verdict::Due {
                rt.used.insert(*gn as u64);
                rt.head = rt.head.max(*gn as u64 + 1);
            }
        }
        let mut more = 0;
        let mut guard = 0;
        while more < 5 && guard < 200 {
            guard += 1;
            let g0 = rng.below(k) as u64;
            if verdicts.contains_key(&(r, g0 as usize)) {
                continue;
            }
            let Some(mut v) = rt.classify(g0, ooo, mfd) else { continue };
            // the past-epoch window: ok_commits epochs late
            if ok_commits > past.min(5) {
                v = Verdict::OutsideWindow;
            }
            if v == Verdict::Due {
                rt.apply(g0, v);
            }
            verdicts.insert((r, g0 as usize), v);
            let d = w.deliver(r, burst[g0 as usize], OwnMode::Echo);
            out.note("c02win_first_delivery_late", format!("{v:?} epochs_late={ok_commits} window={} -> {}", past.min(5), d.class));
            more += 1;
        }
    }
    // the sender's own copies come back from the relay
    for idx in burst.iter().step_by(1 + k / 40) {
        w.deliver(sender, *idx, OwnMode::Echo);
    }
    // re-offer everything that was delivered, twice (nothing may change, nothing may duplicate)
    for _ in 0..2 {
        for &r in &receivers {
            let gns: Vec<usize> = verdicts.keys().filter(|(rr, _)| *rr == r).map(|(_, g)| *g).collect();
            for gn in gns {
                w.deliver(r, burst[gn], OwnMode::Echo);
            }
        }
    }
    if std::env::var("VERIF_WIN_ONLY").is_ok() {
        eprintln!("--- windows trial {i}: ooo={ooo} mfd={mfd} past={past} k={k} sender=c{sender} commits_between={ok_commits}");
        for l in &w.trace {
            if l.contains(&format!("D m{sender} ")) || l.starts_with("A m") && !l.contains(" msg ") || l.starts_with('J') {
                eprintln!("{l}");
            }
        }
    }
    // ---- judge -------------------------------------------------------------------------------------
    let gid = w.gid(g);
    let role = |r: usize| if r == a { "creator" } else if r == c { "joiner" } else { "member" };
    for &r in &receivers {
        let msgs = with_mdk!(w.clients[r].mdk, x => x.get_messages(&gid, Some(Pagination::new(Some(10_000), Some(0)))).unwrap_or_default());
        for ((rr, gn), v) in &verdicts {
            if *rr != r {
                continue;
            }
            let rumor = w.log[burst[*gn]].rumor.as_ref().unwrap();
            let rid = rumor.id.unwrap();
            let copies: Vec<_> = msgs.iter().filter(|m| m.id == rid).collect();
            let replay = json!({"kind": "c02win", "scenario": i, "config": {"out_of_order_tolerance": ooo, "maximum_forward_distance": mfd, "max_past_epochs": past}, "burst": k, "receiver_role": role(r), "generation": gn, "trace": trace_tail(&w, 40)});
            if copies.len() > 1 {
                out.violation("C02|windows|duplicate", format!("generation {gn} has {} stored copies at the {}", copies.len(), role(r)), replay);
                w.cleanup();
                return;
            }
            if let Some(m) = copies.first() {
                let intact = m.pubkey == rumor.pubkey && m.kind == rumor.kind && m.created_at == rumor.created_at && m.content == rumor.content && m.tags == rumor.tags;
                if !intact {
                    out.violation("C02|windows|altered", format!("generation {gn} stored with altered fields at the {}", role(r)), replay);
                    w.cleanup();
                    return;
                }
            }
            if *v == Verdict::Due {
                out.count("c02win_due_checked");
                out.count(&format!("c02win_due_checked_at_{}", role(r)));
                let ok = copies.len() == 1 && copies[0].state == message_types::MessageState::Processed;
                if !ok {
                    let what = if copies.is_empty() { "missing".to_string() } else { format!("{:?}", copies[0].state) };
                    let cfg_kind = if ooo > 100 || mfd > 1000 { "above-defaults" } else if ooo == 100 && mfd == 1000 { "defaults" } else { "below-defaults" };
                    out.violation(
                        format!("C02|windows|due-message-{}|receiver={}|config={cfg_kind}", if copies.is_empty() { "missing" } else { "not-valid" }, role(r)),
                        format!("message generation {gn} of a burst of {k} was first delivered inside the configured windows (out_of_order_tolerance {ooo}, maximum_forward_distance {mfd}, max_past_epochs {past}; {ok_commits} epochs late) but is {what} at the {}", role(r)),
                        replay,
                    );
                    w.cleanup();
                    return;
                }
            } else {
                out.count("c02win_outside_window_checked");
            }
        }
    }
    // the sender's echoed copies are confirmed
    let own = with_mdk!(w.clients[sender].mdk, x => x.get_messages(&gid, Some(Pagination::new(Some(10_000), Some(0)))).unwrap_or_default());
    for (pos, idx) in burst.iter().enumerate().step_by(1 + k / 40) {
        let rid = w.log[*idx].rumor.as_ref().unwrap().id.unwrap();
        let st = own.iter().find(|m| m.id == rid).map(|m| m.state);
        if w.clients[sender].backend == BackendKind::Memory && pos + 800 < k {
            // the memory backend keeps its dedup records in an LRU cache of 1000 entries (a
            // documented limit): the oldest records of a burst of more than 1000 own messages are gone
            out.count("c02win_own_echo_beyond_memory_cache_capacity");
            continue;
        }
        if ok_commits > past.min(5) {
            // the echo came back outside the past-epoch window: confirmation is not demanded
            out.count("c02win_own_echo_outside_window");
            continue;
        }
        out.count("c02win_own_echo_checked");
        if st != Some(message_types::MessageState::Processed) {
            out.violation("C02|windows|own-copy-not-confirmed", format!("the sender's own message e{idx} is {st:?} after its echo came back"), json!({"kind": "c02win", "scenario": i, "trace": trace_tail(&w, 40)}));
            w.cleanup();
            return;
        }
    }
    out.note("c02win_configs", format!("ooo={ooo} mfd={mfd} past={past}"));
    out.distinct.insert(crate::rng::fnv(format!("{ooo}-{mfd}-{past}-{commits_between}-{:?}-{}", labels, verdicts.values().filter(|v| **v == Verdict::Due).count()).as_bytes()));
    if i < 2 {
        out.sample(json!({"windows_trial": i, "config": {"out_of_order_tolerance": ooo, "maximum_forward_distance": mfd, "max_past_epochs": past}, "burst": k, "sender": role(sender), "commits_between": ok_commits, "first_deliveries": verdicts.iter().take(30).map(|((r, g), v)| format!("{}:gn{}:{:?}", role(*r), g, v)).collect::<Vec<_>>()}), 5);
    }
    w.cleanup();
}
