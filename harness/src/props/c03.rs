//! C03 - only members of the sending epoch ever obtain a message's plaintext.

use std::collections::{BTreeMap, BTreeSet};

use mdk_core::prelude::*;
use mdk_storage_traits::groups::Pagination;
use nostr::{EventId, PublicKey, UnsignedEvent};
use serde_json::json;

use crate::report::{Ctx, Floor, Outcome, finish};
use crate::rng::Rng;
use crate::sim::scenario::*;
use crate::sim::*;
use crate::with_mdk;

struct Sent {
    body: String,
    g: usize,
    members: BTreeSet<PublicKey>,
    epoch: u64,
}

fn all_bodies(w: &World, c: usize) -> Vec<(usize, String, message_types::MessageState)> {
    let mut v = vec![];
    for (gi, g) in w.groups.iter().enumerate() {
        let ms = with_mdk!(w.clients[c].mdk, x => x.get_messages(&g.gid, Some(Pagination::new(Some(10_000), Some(0)))).unwrap_or_default());
        for m in ms {
            v.push((gi, m.content.clone(), m.state));
        }
    }
    v
}

/// A client that has processed its own removal - its MLS layer merged the removing commit (the
/// group is inactive there) or the library answered the commit with `Commit` - must show the group
/// as Inactive and must not be able to send. Returns false after reporting a violation.
fn judge_removed(prop: &str, i: u64, w: &mut World, g: usize, target: usize, idx: usize, how: &str, out: &mut Outcome) -> bool {
    let gid = w.gid(g);
    let first = w.clients[target].first_result.get(&idx).cloned().unwrap_or_default();
    let merged = w.mls_active(target, g) == Some(false);
    if first != "Commit" && !merged {
        // the target did not process its removal (it lags or is forked): nothing to judge here
        return true;
    }
    out.count("removals");
    out.note("removal_kinds", format!("{how}:first-result={first}"));
    let st = w.clients[target].group_state(&gid);
    if st != Some(group_types::GroupState::Inactive) {
        out.violation(format!("{prop}|removed-member-not-inactive|{how}|state={:?}", st), format!("c{target} processed its own removal (e{idx}, {how}; result {first}; MLS group inactive: {merged}) but its group state is {:?}", st), json!({"scenario": i, "trace": trace_tail(w, 25)}));
        return false;
    }
    let ts = w.base_ts;
    if w.act_message(target, g, ts).is_some() {
        out.violation(format!("{prop}|removed-member-can-send|{how}"), format!("c{target} created a message after processing its removal ({how})"), json!({"scenario": i, "trace": trace_tail(w, 25)}));
        return false;
    }
    true
}

pub fn history(prop: &str, i: u64, rng: &mut Rng, out: &mut Outcome, dir: &std::path::Path) {
    let mut w = World::empty(dir.to_path_buf(), format!("c03-{i}"));
    let cfg = mdk_core::MdkConfig::default();
    out.evaluations += 1;
    let n = rng.range(3, 5);
    let backend = |k: usize| if i % 9 == 0 && k == 1 { BackendKind::Sqlite } else { BackendKind::Memory };
    let members: Vec<usize> = (0..n).map(|k| w.add_client(backend(k), cfg.clone(), rng)).collect();
    let never = w.add_client(BackendKind::Memory, cfg.clone(), rng);
    let g = w.create_group(&members, &[members[0], members[1]], None, "secret-group");
    // a different group that shares users (members[1], members[2]) with an outsider
    let other_only = w.add_client(BackendKind::Memory, cfg.clone(), rng);
    let g2 = w.create_group(&[members[1], members[2], other_only], &[members[1]], None, "other-group");
    let gid = w.gid(g);
    let mut sent: Vec<Sent> = vec![];
    let mut welcomes: Vec<(usize, UnsignedEvent)> = vec![];
    let mut ex_members: BTreeSet<usize> = BTreeSet::new();
    let mut labels = vec![];
    let mut returned_plaintext: Vec<(usize, String)> = vec![]; // (client, body) from ApplicationMessage results
    let steps = rng.range(10, 22);
    let current = |w: &World| -> Vec<usize> { (0..w.clients.len()).filter(|c| w.groups[g].invited.contains(c) && w.is_active(*c, g)).collect() };
    for _ in 0..steps {
        w.t += 2;
        let cur = current(&w);
        if cur.len() < 2 {
            break;
        }
        let admins: Vec<usize> = cur.iter().copied().filter(|c| w.is_admin_now(*c, g)).collect();
        let r = rng.below(100);
        // deliver helper: everyone currently active gets the event right away (linear history)
        let broadcast = |w: &mut World, idx: usize, returned: &mut Vec<(usize, String)>| {
            let targets: Vec<usize> = (0..w.clients.len()).filter(|c| w.groups[w.log[idx].g].invited.contains(c) && *c != w.log[idx].author).collect();
            for c in targets {
                let d = w.deliver(c, idx, OwnMode::Echo);
                if let Some(m) = d.message {
                    returned.push((c, m.content.clone()));
                }
            }
        };
        if r < 45 {
            let grp = if rng.chance(85) { g } else { g2 };
            let senders: Vec<usize> = (0..w.clients.len()).filter(|c| w.groups[grp].invited.contains(c) && w.is_active(*c, grp)).collect();
            let m = *rng.pick(&senders);
            let ts = w.base_ts;
            if let Some(idx) = w.act_message(m, grp, ts) {
                let members = w.members_at(m, grp);
                let epoch = w.log[idx].at.1;
                sent.push(Sent { body: w.log[idx].what.clone(), g: grp, members, epoch });
                broadcast(&mut w, idx, &mut returned_plaintext);
                labels.push(format!("msg(g{grp})"));
            }
        } else if r < 58 && !admins.is_empty() {
            // add a fresh user or re-invite an ex-member
            let a = *rng.pick(&admins);
            let t = w.t;
            if !ex_members.is_empty() && rng.chance(50) {
                let j = *ex_members.iter().next().unwrap();
                let kp = w.clients[j].key_package_event();
                mdk_core::verif::set_created_at(Some(t));
                let at = w.clients[a].state(g, &gid).unwrap();
                if let Ok(u) = with_mdk!(w.clients[a].mdk, x => x.add_members(&gid, &[kp])) {
                    let idx = w.log.len();
                    let rumor = u.welcome_rumors.clone().unwrap()[0].clone();
                    w.log.push(Pub { ev: u.evolution_event, kind: PubKind::Commit, author: a, g, at, refs: vec![], what: format!("re-add c{j}"), rumor: None, mode: OwnMode::Immediate, welcomes: vec![(j, rumor.clone())], adversarial: false });
                    w.clients[a].pending_own.insert(g, idx);
                    w.act_merge(a, g);
                    broadcast(&mut w, idx, &mut returned_plaintext);
                    welcomes.push((j, rumor));
                    if w.join(j, idx) {
                        ex_members.remove(&j);
                    }
                    labels.push("re-invite-ex-member".into());
                }
            } else if let Some(idx) = w.act_commit(a, g, &CommitKind::Add, t, OwnMode::Immediate, 0, rng) {
                let ws = w.log[idx].welcomes.clone();
                broadcast(&mut w, idx, &mut returned_plaintext);
                for (j, rumor) in ws {
                    welcomes.push((j, rumor));
                    w.join(j, idx);
                }
                labels.push("add".into());
            }
        } else if r < 72 && !admins.is_empty() && cur.len() > 2 {
            let a = *rng.pick(&admins);
            let cands: Vec<usize> = cur.iter().copied().filter(|c| *c != a && *c != members[0]).collect();
            if cands.is_empty() {
                continue;
            }
            let target = *rng.pick(&cands);
            if let Some(idx) = w.act_commit_remove_target(a, g, target, rng) {
                // in a third of the removals the member that is being removed holds an UNMERGED commit
                // of its own for this epoch when the removal reaches it (it called self_update() and
                // waits for the relay; the event never made it to anybody, so the history stays linear)
                let pending = rng.chance(33) && !w.clients[target].pending_own.contains_key(&g);
                if pending {
                    mdk_core::verif::set_created_at(Some(w.t + 1));
                    if with_mdk!(w.clients[target].mdk, x => x.self_update(&gid)).is_ok() {
                        out.count("removals_reaching_a_member_with_a_pending_own_commit");
                    }
                }
                broadcast(&mut w, idx, &mut returned_plaintext);
                ex_members.insert(target);
                labels.push(if pending { "remove(target-has-pending-commit)".into() } else { "remove".into() });
                if !judge_removed(prop, i, &mut w, g, target, idx, if pending { "remove-while-own-commit-pending" } else { "remove" }, out) {
                    w.cleanup();
                    return;
                }
            }
        } else if r < 80 {
            // a non-admin leaves; an admin auto-commits and merges
            let cands: Vec<usize> = cur.iter().copied().filter(|c| !w.is_admin_now(*c, g)).collect();
            if cands.is_empty() || cur.len() <= 2 {
                continue;
            }
            let m = *rng.pick(&cands);
            if let Some(pidx) = w.act_leave(m, g) {
                // linear history: exactly one admin auto-commits (and merges at once); the other
                // admins see the proposal only after that commit
                let mut commit = None;
                let targets: Vec<usize> = cur.iter().copied().filter(|c| *c != m).collect();
                let mut later = vec![];
                for c in targets {
                    if commit.is_some() && w.is_admin_now(c, g) {
                        later.push(c);
                        continue;
                    }
                    let d = w.deliver(c, pidx, OwnMode::Immediate);
                    if commit.is_none() {
                        commit = d.produced;
                    }
                }
                let _ = later;
                if let Some(ci) = commit {
                    broadcast(&mut w, ci, &mut returned_plaintext);
                    ex_members.insert(m);
                    labels.push("leave".into());
                    if !judge_removed(prop, i, &mut w, g, m, ci, "leave-committed-by-admin", out) {
                        w.cleanup();
                        return;
                    }
                }
            }
        } else if r < 86 && !admins.is_empty() && cur.len() > 2 {
            // a leave that an admin commits TOGETHER with an add: the admin holds a pending commit
            // when the leave proposal arrives (so it is queued), drops that commit and adds a new
            // user - one commit carries Remove(leaver) + Add(newcomer), and the newcomer takes the
            // leaver's leaf when that is the leftmost free one
            let a = *rng.pick(&admins);
            let cands: Vec<usize> = cur.iter().copied().filter(|c| *c != a && !w.is_admin_now(*c, g)).collect();
            if cands.is_empty() {
                continue;
            }
            let m = *rng.pick(&cands);
            mdk_core::verif::set_created_at(Some(w.t));
            if with_mdk!(w.clients[a].mdk, x => x.self_update(&gid)).is_err() {
                continue;
            }
            let Some(pidx) = w.act_leave(m, g) else {
                let _ = with_mdk!(w.clients[a].mdk, x => x.clear_pending_commit(&gid));
                continue;
            };
            let d = w.deliver(a, pidx, OwnMode::Immediate);
            let _ = with_mdk!(w.clients[a].mdk, x => x.clear_pending_commit(&gid));
            if d.produced.is_some() || d.class != "PendingProposal" {
                // the admin did not queue it (it auto-committed or refused): not this case
                if let Some(ci) = d.produced {
                    let _ = ci;
                }
                continue;
            }
            let t = w.t + 1;
            if let Some(idx) = w.act_commit(a, g, &CommitKind::Add, t, OwnMode::Immediate, 0, rng) {
                let ws = w.log[idx].welcomes.clone();
                // everybody else must know the proposal before the commit that references it
                for c in cur.iter().copied().filter(|c| *c != a && *c != m) {
                    w.deliver(c, pidx, OwnMode::Echo);
                }
                broadcast(&mut w, idx, &mut returned_plaintext);
                for (j, rumor) in ws {
                    welcomes.push((j, rumor));
                    w.join(j, idx);
                }
                labels.push("leave+add-in-one-commit".into());
                if !w.members_at(a, g).contains(&w.clients[m].pk()) {
                    ex_members.insert(m);
                    out.count("leave_and_add_in_one_commit");
                    if !judge_removed(prop, i, &mut w, g, m, idx, "remove+add-in-one-commit", out) {
                        w.cleanup();
                        return;
                    }
                }
            }
        } else {
            let m = *rng.pick(&cur);
            let kind = if w.is_admin_now(m, g) && rng.chance(40) { CommitKind::RotateNid } else { CommitKind::SelfUpdate };
            let t = w.t;
            if let Some(idx) = w.act_commit(m, g, &kind, t, OwnMode::Immediate, rng.next() % 100_000, rng) {
                broadcast(&mut w, idx, &mut returned_plaintext);
                labels.push(format!("{kind:?}"));
            }
        }
    }
    // clients that have processed their own removal and were not invited again
    let removed_for_good: Vec<usize> = ex_members.iter().copied().filter(|c| w.mls_active(*c, g) == Some(false) && w.clients[*c].group_state(&gid) == Some(group_types::GroupState::Inactive)).collect();
    // ---- feed every client everything, in three orders, twice ----------------------------------
    let n_events = w.log.len();
    let all_clients: Vec<usize> = (0..w.clients.len()).collect();
    let mut orders: Vec<Vec<usize>> = vec![(0..n_events).collect(), (0..n_events).rev().collect()];
    let mut sh: Vec<usize> = (0..n_events).collect();
    rng.shuffle(&mut sh);
    orders.push(sh);
    for c in &all_clients {
        for order in &orders {
            for _rep in 0..2 {
                for &idx in order {
                    let p = w.log[idx].ev.clone();
                    let r = std::panic::catch_unwind(std::panic::AssertUnwindSafe(|| with_mdk!(w.clients[*c].mdk, x => x.process_message(&p))));
                    out.count("events_fed_to_observers");
                    if let Ok(Ok(MessageProcessingResult::ApplicationMessage(m))) = r {
                        returned_plaintext.push((*c, m.content.clone()));
                    }
                }
                for (k, (_, rumor)) in welcomes.iter().enumerate() {
                    let wid = EventId::from_byte_array(Rng::new((k * 31 + *c) as u64).bytes::<32>());
                    let _ = with_mdk!(w.clients[*c].mdk, x => x.process_welcome(&wid, rumor));
                    out.count("welcomes_fed_to_observers");
                }
                // the ordinary application loop: whatever is shown as a pending invitation is accepted
                let pending = with_mdk!(w.clients[*c].mdk, x => x.get_pending_welcomes(None)).unwrap_or_default();
                for wl in pending {
                    out.count("pending_invitations_accepted_during_replay");
                    let _ = with_mdk!(w.clients[*c].mdk, x => x.accept_welcome(&wl));
                }
            }
        }
    }
    // ---- nothing that was replayed gives a removed client its group back -----------------------------
    for c in &removed_for_good {
        out.count("removed_clients_judged_after_replay");
        let st = w.clients[*c].group_state(&gid);
        let ts = w.base_ts;
        let can_send = w.act_message(*c, g, ts).is_some();
        if st != Some(group_types::GroupState::Inactive) || can_send {
            out.violation(
                format!("{prop}|removed-member-revived-by-replay|state={st:?}|can-send={can_send}"),
                format!("c{c} had processed its own removal (group Inactive); after every event and every invitation was replayed to it (and the invitations it was shown as pending were accepted) its group state is {st:?} and create_message succeeds: {can_send}"),
                json!({"scenario": i, "steps": labels, "trace": trace_tail(&w, 40)}),
            );
            w.cleanup();
            return;
        }
    }
    // ---- canary scan -------------------------------------------------------------------------------
    let by_body: BTreeMap<&str, &Sent> = sent.iter().map(|s| (s.body.as_str(), s)).collect();
    let role = |c: usize| -> &'static str {
        if c == never {
            "never-member"
        } else if c == other_only {
            "member-of-other-group-only"
        } else if ex_members.contains(&c) {
            "ex-member"
        } else if !members.contains(&c) {
            "late-joiner"
        } else {
            "member"
        }
    };
    for c in &all_clients {
        let pk = w.clients[*c].pk();
        out.note("observer_roles", role(*c));
        let mut seen: Vec<(String, &'static str)> = all_bodies(&w, *c).into_iter().map(|(_, b, _)| (b, "stored")).collect();
        seen.extend(returned_plaintext.iter().filter(|(cc, _)| cc == c).map(|(_, b)| (b.clone(), "returned")));
        for (body, how) in seen {
            out.count("plaintexts_checked");
            let Some(s) = by_body.get(body.as_str()) else { continue };
            if !s.members.contains(&pk) {
                out.violation(
                    format!("{prop}|plaintext-obtained-by-non-member|{}|{how}", role(*c)),
                    format!("c{c} ({}) holds `{body}` sent in epoch {} of g{} whose member set does not contain it", role(*c), s.epoch, s.g),
                    json!({"scenario": i, "steps": labels, "trace": trace_tail(&w, 40)}),
                );
                w.cleanup();
                return;
            }
        }
    }
    out.add("messages_sent", sent.len() as u64);
    out.distinct.insert(crate::rng::fnv(labels.join("|").as_bytes()));
    if !ex_members.is_empty() {
        out.count("histories_with_ex_member_observer");
    }
    if i < 2 {
        out.sample(json!({"scenario": i, "steps": labels, "clients": w.clients.len(), "events": n_events}), 3);
    }
    w.cleanup();
}

pub fn run(ctx: &Ctx) -> i32 {
    let dir = ctx.scratch_dir("c03");
    let n = ctx.budget(1500, 20_000) as u64;
    let out = crate::par::run(ctx, n, std::time::Duration::from_secs(ctx.tier.pick(70, 900)), |i, rng, out| history(&ctx.prop, i, rng, out, &dir));
    let _ = std::fs::remove_dir_all(&dir);
    let floors = vec![
        Floor { what: "events fed to observers", have: out.get("events_fed_to_observers"), need: 50_000 },
        Floor { what: "histories with an ex-member observer", have: out.get("histories_with_ex_member_observer"), need: 80 },
        Floor { what: "removals that reach a member holding a pending commit of its own", have: out.get("removals_reaching_a_member_with_a_pending_own_commit"), need: 100 },
        Floor { what: "removed clients judged again after the replay", have: out.get("removed_clients_judged_after_replay"), need: 80 },
        Floor { what: "plaintexts checked against the membership timeline", have: out.get("plaintexts_checked"), need: 5000 },
        Floor { what: "removals (inactive / cannot-send probes)", have: out.get("removals"), need: 60 },
    ];
    finish(
        ctx,
        "exploration",
        "linear group histories (3-5 users, <= 22 steps) of messages with unique bodies, adds, removals, leaves committed by an admin, self-updates, nostr-id rotations and re-invitations of ex-members, plus a second group sharing two users; the member set of every message's epoch is recorded at send time. Afterwards EVERY client (never-member, member of the other group only, ex-members keeping their storage, late joiners, members) is fed every wrapper event and every welcome rumor ever published in log order, reversed and shuffled, each twice. Oracle: no client stores or is returned (ApplicationMessage result) a body whose epoch's member set does not contain its user; a client that processed its removal is Inactive and cannot create a message - judged when the removal is processed and again after the whole replay, during which every invitation the client is shown as pending is accepted (the ordinary application loop). distinct = distinct step sequences",
        out,
        floors,
        vec!["cryptographic strength is not observable; what is checked is that no driven path hands over plaintext".into()],
        json!({}),
    )
}
