//! C04 - stored messages are bound to their MLS-authenticated sender and to their own content.

use std::collections::BTreeMap;

use mdk_core::prelude::*;
use mdk_storage_traits::groups::Pagination;
use nostr::{EventBuilder, EventId, Keys, Kind, PublicKey, Tag, TagKind, Timestamp, UnsignedEvent};
use serde_json::json;

use super::c06::{Arena, VictimState, arena};
use crate::report::{Ctx, Floor, Outcome, finish};
use crate::rng::Rng;
use crate::sim::adversary as adv;
use crate::sim::scenario::*;
use crate::sim::*;
use crate::with_mdk;

#[derive(Clone, Debug, PartialEq)]
struct Shadow {
    pubkey: PublicKey,
    content: String,
    kind: u16,
    created_at: u64,
    tags: String,
}

fn stored(w: &World, c: usize, g: usize) -> Vec<message_types::Message> {
    let gid = w.gid(g);
    with_mdk!(w.clients[c].mdk, x => x.get_messages(&gid, Some(Pagination::new(Some(10_000), Some(0)))).unwrap_or_default())
}

/// binding checks on everything `c` stores; returns a violation clause
fn binding_check(w: &World, c: usize, wrapper_author: &BTreeMap<EventId, usize>) -> Option<(String, String)> {
    for g in 0..w.groups.len() {
        if !w.groups[g].invited.contains(&c) {
            continue;
        }
        let msgs = stored(w, c, g);
        let mut by_wrapper: BTreeMap<EventId, usize> = BTreeMap::new();
        for m in &msgs {
            // id = NIP-01 hash of exactly the stored author, timestamp, kind, tags, content
            let recomputed = EventId::new(&m.pubkey, &m.created_at, &m.kind, &m.tags, &m.content);
            if recomputed != m.id {
                return Some(("id-is-not-hash-of-stored-fields".into(), format!("c{c} g{g}: stored message id {} != NIP-01 hash {} of its stored fields (content {:?})", &m.id.to_hex()[..8], &recomputed.to_hex()[..8], crate::util::short(&m.content, 40))));
            }
            if m.event.verify_id().is_err() || m.event.id != Some(m.id) {
                return Some(("stored-event-fails-verify_id".into(), format!("c{c} g{g}: stored event of message {} fails verify_id / differs from message id", &m.id.to_hex()[..8])));
            }
            if m.event.pubkey != m.pubkey || m.event.content != m.content || m.event.kind != m.kind || m.event.created_at != m.created_at || m.event.tags != m.tags {
                return Some(("message-fields-differ-from-its-event".into(), format!("c{c} g{g}: message {} fields differ from its stored event", &m.id.to_hex()[..8])));
            }
            // attributed to the identity that produced the MLS ciphertext
            if let Some(a) = wrapper_author.get(&m.wrapper_event_id)
                && w.clients[*a].pk() != m.pubkey
            {
                return Some(("attributed-to-other-identity".into(), format!("c{c} g{g}: message {} stored with author {} but the MLS ciphertext was produced by c{a}", &m.id.to_hex()[..8], &m.pubkey.to_hex()[..8])));
            }
            *by_wrapper.entry(m.wrapper_event_id).or_insert(0) += 1;
        }
        // the same (author, content) twice = a second copy of one ciphertext (bodies are unique)
        let mut seen: BTreeMap<(String, String), usize> = BTreeMap::new();
        for m in &msgs {
            *seen.entry((m.pubkey.to_hex(), m.content.clone())).or_insert(0) += 1;
        }
        if let Some(((_, body), n)) = seen.iter().find(|(_, n)| **n > 1) {
            return Some(("second-copy".into(), format!("c{c} g{g}: {n} stored copies of `{}`", crate::util::short(body, 40))));
        }
    }
    None
}

fn shadow_of(w: &World, c: usize) -> BTreeMap<(usize, EventId), Shadow> {
    let mut m = BTreeMap::new();
    for g in 0..w.groups.len() {
        if !w.groups[g].invited.contains(&c) {
            continue;
        }
        for x in stored(w, c, g) {
            m.insert((g, x.id), Shadow { pubkey: x.pubkey, content: x.content.clone(), kind: x.kind.as_u16(), created_at: x.created_at.as_secs(), tags: serde_json::to_string(&x.tags).unwrap_or_default() });
        }
    }
    m
}

pub fn trial(prop: &str, i: u64, rng: &mut Rng, out: &mut Outcome, dir: &std::path::Path) {
    let backend = if i % 8 == 0 { BackendKind::Sqlite } else { BackendKind::Memory };
    let mut a: Arena = arena(rng, dir, &format!("c04-{i}"), backend, VictimState::Idle);
    out.evaluations += 1;
    let (g, g2, v, atk, h) = (a.g, a.g2, a.victim, a.attacker, a.honest);
    let gid = a.w.gid(g);
    let mut wrapper_author: BTreeMap<EventId, usize> = BTreeMap::new();
    // honest traffic in both groups
    let mut honest_ids: Vec<(usize, EventId, usize)> = vec![]; // (group, rumor id, author)
    for _ in 0..rng.range(2, 4) {
        for (author, grp) in [(0usize, g), (h, g), (h, g2), (v, g)] {
            a.w.t += 1;
            if let Some(idx) = a.w.act_message(author, grp, a.w.base_ts + rng.below(3) as u64) {
                wrapper_author.insert(a.w.log[idx].ev.id, author);
                honest_ids.push((grp, a.w.log[idx].rumor.as_ref().unwrap().id.unwrap(), author));
                for r in [v, h, 0usize, atk] {
                    if a.w.groups[grp].invited.contains(&r) {
                        a.w.deliver(r, idx, OwnMode::Echo);
                    }
                }
            }
        }
    }
    // an honest member of both groups cross-posts ONE rumor (same id) to both: each group keeps its copy
    if rng.chance(50) {
        a.w.t += 1;
        let mut rumor: UnsignedEvent = EventBuilder::new(Kind::Custom(9), format!("cross-post-{i}")).custom_created_at(Timestamp::from(a.w.base_ts + 1)).build(a.w.clients[h].pk());
        rumor.ensure_id();
        for grp in [g, g2] {
            mdk_core::verif::set_created_at(Some(a.w.t));
            let gidx = a.w.gid(grp);
            if let Ok(ev) = with_mdk!(a.w.clients[h].mdk, x => x.create_message(&gidx, rumor.clone())) {
                wrapper_author.insert(ev.id, h);
                let at = a.w.clients[h].state(grp, &gidx).unwrap();
                let idx = a.w.log.len();
                a.w.log.push(Pub { ev, kind: PubKind::App, author: h, g: grp, at, refs: vec![], what: "cross-posted".into(), rumor: Some(rumor.clone()), mode: OwnMode::Echo, welcomes: vec![], adversarial: false });
                for r in [v, h] {
                    a.w.deliver(r, idx, OwnMode::Echo);
                }
            }
        }
        out.count("cross_posted_rumors");
        // both receivers hold it in BOTH groups
        for r in [v, h] {
            for grp in [g, g2] {
                let has = stored(&a.w, r, grp).iter().any(|m| m.id == rumor.id.unwrap());
                if !has {
                    out.violation(format!("{prop}|cross-posted-message-missing-in-one-group|unexplained|attack=none"), format!("c{r} does not hold the cross-posted rumor in group g{grp} after it was stored in both groups"), json!({"kind": "c04", "scenario": i, "trace": trace_tail(&a.w, 20)}));
                    a.w.cleanup();
                    return;
                }
            }
        }
    }
    let receivers = [v, h];
    let mut shadows: Vec<BTreeMap<(usize, EventId), Shadow>> = receivers.iter().map(|c| shadow_of(&a.w, *c)).collect();
    let apk = a.w.clients[atk].pk();
    let mut labels = vec![];
    let mut attacker_wrappers: Vec<(nostr::Event, u64)> = vec![]; // (wrapper, epoch)
    for _ in 0..rng.range(6, 12) {
        a.w.t += 1;
        let ts = a.w.t;
        let k = rng.below(14);
        let body = format!("atk-{i}-{}", labels.len());
        let mut rumor: UnsignedEvent = EventBuilder::new(Kind::Custom(9), body.clone()).custom_created_at(Timestamp::from(a.w.base_ts)).build(apk);
        let mut via_api = true;
        let label: String = match k {
            0 => {
                rumor.pubkey = a.w.clients[v].pk();
                rumor.id = None;
                "spoof-author=victim".into()
            }
            1 => {
                rumor.pubkey = a.w.clients[h].pk();
                rumor.id = None;
                "spoof-author=honest".into()
            }
            2 => {
                rumor.pubkey = Keys::generate().public_key();
                rumor.id = None;
                "spoof-author=outsider".into()
            }
            3 => {
                let cands: Vec<_> = honest_ids.iter().filter(|x| x.0 == g && x.2 != atk).collect();
                rumor.id = Some(rng.pick(&cands).1);
                "preset-id=honest-message-same-group".into()
            }
            4 => {
                let cands: Vec<_> = honest_ids.iter().filter(|x| x.0 == g2).collect();
                rumor.id = Some(rng.pick(&cands).1);
                "preset-id=message-of-other-group".into()
            }
            5 => {
                rumor.id = Some(EventId::from_byte_array(rng.bytes::<32>()));
                "preset-id=random".into()
            }
            6 => {
                rumor.kind = Kind::from(*rng.pick(&[0u16, 1, 5, 7, 445, 444, 30000, 65535]));
                rumor.created_at = Timestamp::from(*rng.pick(&[0u64, 1, 4_000_000_000, u64::MAX / 2]));
                rumor.tags = nostr::Tags::from_list((0..rng.below(5)).map(|j| Tag::custom(TagKind::Custom("t".into()), [format!("x{j}")])).collect());
                rumor.id = None; // EventBuilder::build() had already computed the id of the unmodified rumor
                "odd-kind-tags-created_at".into()
            }
            7 | 8 => {
                // replay / re-wrap an earlier attacker ciphertext
                if attacker_wrappers.is_empty() {
                    continue;
                }
                let (wev, epoch) = rng.pick(&attacker_wrappers).clone();
                via_api = false;
                if k == 7 {
                    let idx = a.w.log.len();
                    let at = a.w.clients[atk].state(g, &gid).unwrap();
                    a.w.log.push(Pub { ev: wev.clone(), kind: PubKind::App, author: atk, g, at, refs: vec![], what: "replay-verbatim".into(), rumor: None, mode: OwnMode::Echo, welcomes: vec![], adversarial: true });
                    for r in receivers {
                        a.w.deliver(r, idx, OwnMode::Echo);
                    }
                    "replay-verbatim".into()
                } else {
                    // strip the outer layer with the exporter secret of that epoch, wrap again
                    let secret = with_mdk!(a.w.clients[atk].mdk, x => adv::exporter_secret(x, &gid, epoch));
                    let Some(secret) = secret else { continue };
                    let sk = nostr::SecretKey::from_slice(&secret).unwrap();
                    let kk = Keys::new(sk);
                    let Ok(inner) = nostr::nips::nip44::decrypt_to_bytes(kk.secret_key(), &kk.public_key, &wev.content) else { continue };
                    let nid = with_mdk!(a.w.clients[atk].mdk, x => adv::nostr_group_id(x, &gid)).unwrap();
                    let Some(ev2) = adv::wrap_raw(&secret, Some(&nid), &inner, ts) else { continue };
                    wrapper_author.insert(ev2.id, atk);
                    let idx = a.w.log.len();
                    let at = a.w.clients[atk].state(g, &gid).unwrap();
                    a.w.log.push(Pub { ev: ev2, kind: PubKind::App, author: atk, g, at, refs: vec![], what: "replay-rewrapped".into(), rumor: None, mode: OwnMode::Echo, welcomes: vec![], adversarial: true });
                    for r in receivers {
                        a.w.deliver(r, idx, OwnMode::Echo);
                    }
                    "replay-rewrapped".into()
                }
            }
            9 => {
                // own earlier message id (replace own message with different content)
                let own: Vec<_> = honest_ids.iter().filter(|x| x.0 == g && x.2 == atk).collect();
                if own.is_empty() {
                    rumor.id = Some(EventId::from_byte_array(rng.bytes::<32>()));
                } else {
                    rumor.id = Some(rng.pick(&own).1);
                }
                "preset-id=own-earlier-message".into()
            }
            10 => {
                // raw OpenMLS path: plaintext JSON carrying victim's pubkey AND an honest message id
                let cands: Vec<_> = honest_ids.iter().filter(|x| x.0 == g && x.2 != atk).collect();
                let mut r2: UnsignedEvent = EventBuilder::new(Kind::Custom(9), body.clone()).build(a.w.clients[h].pk());
                r2.id = Some(rng.pick(&cands).1);
                use nostr::JsonUtil;
                let payload = with_mdk!(a.w.clients[atk].mdk, x => adv::mls_app(x, &gid, r2.as_json().as_bytes()));
                let Some(payload) = payload else { continue };
                let Some(ev) = with_mdk!(a.w.clients[atk].mdk, x => adv::wrap_as(x, &gid, &payload, ts)) else { continue };
                via_api = false;
                wrapper_author.insert(ev.id, atk);
                let idx = a.w.log.len();
                let at = a.w.clients[atk].state(g, &gid).unwrap();
                a.w.log.push(Pub { ev, kind: PubKind::App, author: atk, g, at, refs: vec![], what: "raw-spoof+preset-id".into(), rumor: None, mode: OwnMode::Echo, welcomes: vec![], adversarial: true });
                for r in receivers {
                    a.w.deliver(r, idx, OwnMode::Echo);
                }
                "raw-spoof-author+preset-id".into()
            }
            11 => {
                // a valid attacker message whose wrapper is re-tagged with the other group's h
                use nostr::JsonUtil;
                let mut r2 = rumor.clone();
                r2.ensure_id();
                let payload = with_mdk!(a.w.clients[atk].mdk, x => adv::mls_app(x, &gid, r2.as_json().as_bytes()));
                let Some(payload) = payload else { continue };
                let epoch = with_mdk!(a.w.clients[atk].mdk, x => adv::current_epoch(x, &gid)).unwrap();
                let Some(secret) = with_mdk!(a.w.clients[atk].mdk, x => adv::exporter_secret(x, &gid, epoch)) else { continue };
                let nid2 = with_mdk!(a.w.clients[h].mdk, x => adv::nostr_group_id(x, &a.w.gid(g2))).unwrap();
                let Some(ev) = adv::wrap_raw(&secret, Some(&nid2), &payload, ts) else { continue };
                via_api = false;
                let idx = a.w.log.len();
                let at = a.w.clients[atk].state(g, &gid).unwrap();
                a.w.log.push(Pub { ev, kind: PubKind::App, author: atk, g: g2, at, refs: vec![], what: "retagged-other-group".into(), rumor: None, mode: OwnMode::Echo, welcomes: vec![], adversarial: true });
                for r in receivers {
                    a.w.deliver(r, idx, OwnMode::Echo);
                }
                "wrapper-retagged-with-other-groups-h".into()
            }
            12 => {
                // id computed for other content (stale id)
                rumor.content = format!("{body}-changed-after-id");
                "preset-id=stale-hash-of-other-content".into()
            }
            _ => "plain-valid".into(),
        };
        if via_api {
            mdk_core::verif::set_created_at(Some(ts));
            let r = with_mdk!(a.w.clients[atk].mdk, x => x.create_message(&gid, rumor.clone()));
            if let Ok(ev) = r {
                wrapper_author.insert(ev.id, atk);
                let epoch = with_mdk!(a.w.clients[atk].mdk, x => adv::current_epoch(x, &gid)).unwrap_or(0);
                attacker_wrappers.push((ev.clone(), epoch));
                let idx = a.w.log.len();
                let at = a.w.clients[atk].state(g, &gid).unwrap();
                a.w.log.push(Pub { ev, kind: PubKind::App, author: atk, g, at, refs: vec![], what: label.clone(), rumor: None, mode: OwnMode::Echo, welcomes: vec![], adversarial: true });
                for r in receivers {
                    let d = a.w.deliver(r, idx, OwnMode::Echo);
                    out.note("results", format!("{label} -> {}", d.class));
                }
                if label == "plain-valid" {
                    honest_ids.push((g, rumor.clone().id(), atk));
                }
            } else {
                out.note("results", format!("{label} -> create_message refused"));
            }
        }
        out.count("adversarial_trials");
        out.note("attack_kinds", label.clone());
        labels.push(label.clone());
        // ---- oracle ----------------------------------------------------------------------------
        for (ri, r) in receivers.iter().enumerate() {
            let replay = json!({"kind": "c04", "scenario": i, "attack": label, "trace": trace_tail(&a.w, 30)});
            if let Some((clause, detail)) = binding_check(&a.w, *r, &wrapper_author) {
                let pred = if label.starts_with("preset-id") || label.contains("preset-id") { "preset-rumor-id-trusted" } else { "unexplained" };
                out.violation(format!("{prop}|{clause}|{pred}|attack={}", label.split('=').next().unwrap_or("")), format!("after {label}: {detail}"), replay);
                a.w.cleanup();
                return;
            }
            let now = shadow_of(&a.w, *r);
            for (key, old) in &shadows[ri] {
                match now.get(key) {
                    Some(n) if n == old => {}
                    other => {
                        let was_atk = old.pubkey == apk;
                        let clause = if other.is_none() { "honest-message-disappeared" } else if other.map(|n| n.pubkey != old.pubkey).unwrap_or(false) { "stored-message-reattributed" } else { "stored-message-altered" };
                        if was_atk && clause == "stored-message-altered" && label.contains("own-earlier") {
                            // replacing one's own message is not forbidden by the property; the
                            // binding check above still demands id = hash(content)
                            continue;
                        }
                        let pred = if label.contains("preset-id") { "preset-rumor-id-trusted" } else { "unexplained" };
                        out.violation(
                            format!("{prop}|{clause}|{pred}|attack={}", label.split('=').next().unwrap_or("")),
                            format!("after {label} by c{atk}: message {} of group g{} at c{r}: was ({}, {:?}) now {:?}", &key.1.to_hex()[..8], key.0, &old.pubkey.to_hex()[..8], old.content, other.map(|n| (n.pubkey.to_hex()[..8].to_string(), n.content.clone()))),
                            replay,
                        );
                        a.w.cleanup();
                        return;
                    }
                }
            }
            shadows[ri] = now;
            out.count("oracle_evaluations");
        }
    }
    // ---- final attack: a late message of an ex-member whose leaf has been re-used -----------------
    // The attacker encrypts a rumor that names a not-yet-member ("carol") as author, the wrapper is
    // held back; the admin removes the attacker and adds carol (who takes the freed leaf); the
    // receivers apply both commits and only then get the wrapper (decrypted with past-epoch secrets).
    if rng.chance(40) && a.w.is_active(atk, g) {
        let carol = a.w.add_client(BackendKind::Memory, mdk_core::MdkConfig::default(), rng);
        let cpk = a.w.clients[carol].pk();
        let spoof = rng.chance(70);
        let label = if spoof { "late-spoof-author=member-that-took-the-freed-leaf" } else { "late-honest-message-of-ex-member" };
        a.w.t += 1;
        let rumor: UnsignedEvent = EventBuilder::new(Kind::Custom(9), format!("atk-{i}-late")).custom_created_at(Timestamp::from(a.w.base_ts)).build(if spoof { cpk } else { apk });
        mdk_core::verif::set_created_at(Some(a.w.t));
        let held = with_mdk!(a.w.clients[atk].mdk, x => x.create_message(&gid, rumor));
        if let Ok(ev) = held {
            wrapper_author.insert(ev.id, atk);
            let at = a.w.clients[atk].state(g, &gid).unwrap();
            let late_idx = a.w.log.len();
            a.w.log.push(Pub { ev, kind: PubKind::App, author: atk, g, at, refs: vec![], what: label.into(), rumor: None, mode: OwnMode::Echo, welcomes: vec![], adversarial: true });
            a.w.t += 1;
            let mut ok = false;
            if let Some(rm) = a.w.act_commit_remove_target(0, g, atk, rng) {
                for r in receivers {
                    a.w.deliver(r, rm, OwnMode::Echo);
                }
                a.w.t += 1;
                let kp = a.w.clients[carol].key_package_event();
                let at0 = a.w.clients[0].state(g, &gid).unwrap();
                mdk_core::verif::set_created_at(Some(a.w.t));
                if let Ok(u) = with_mdk!(a.w.clients[0].mdk, x => x.add_members(&gid, &[kp])) {
                    let add_idx = a.w.log.len();
                    let welcomes: Vec<(usize, UnsignedEvent)> = u.welcome_rumors.unwrap_or_default().into_iter().map(|wr| (carol, wr)).collect();
                    a.w.groups[g].invited.insert(carol);
                    a.w.log.push(Pub { ev: u.evolution_event, kind: PubKind::Commit, author: 0, g, at: at0, refs: vec![], what: format!("add c{carol}"), rumor: None, mode: OwnMode::Immediate, welcomes, adversarial: false });
                    a.w.clients[0].pending_own.insert(g, add_idx);
                    a.w.act_merge(0, g);
                    for r in receivers {
                        a.w.deliver(r, add_idx, OwnMode::Echo);
                    }
                    a.w.join(carol, add_idx);
                    ok = receivers.iter().all(|r| a.w.members_at(*r, g).contains(&cpk) && !a.w.members_at(*r, g).contains(&apk));
                }
            }
            if ok {
                for r in receivers {
                    let d = a.w.deliver(r, late_idx, OwnMode::Echo);
                    out.note("results", format!("{label} -> {}", d.class));
                }
                out.count("adversarial_trials");
                out.count("late_leaf_reuse_trials");
                out.note("attack_kinds", label.to_string());
                labels.push(label.to_string());
                for (ri, r) in receivers.iter().enumerate() {
                    let replay = json!({"kind": "c04", "scenario": i, "attack": label, "trace": trace_tail(&a.w, 30)});
                    if let Some((clause, detail)) = binding_check(&a.w, *r, &wrapper_author) {
                        out.violation(format!("{prop}|{clause}|unexplained|attack={}", label.split('=').next().unwrap_or("")), format!("after {label}: {detail}"), replay);
                        a.w.cleanup();
                        return;
                    }
                    let now = shadow_of(&a.w, *r);
                    for (key, old) in &shadows[ri] {
                        if now.get(key) != Some(old) {
                            out.violation(format!("{prop}|stored-message-changed|unexplained|attack=late"), format!("after {label}: message {} of group g{} at c{r} changed or disappeared", &key.1.to_hex()[..8], key.0), replay);
                            a.w.cleanup();
                            return;
                        }
                    }
                    out.count("oracle_evaluations");
                }
            }
        }
    }
    out.distinct.insert(crate::rng::fnv(labels.join("|").as_bytes()));
    if i < 2 {
        out.sample(json!({"scenario": i, "attacks": labels}), 3);
    }
    a.w.cleanup();
}

pub fn run(ctx: &Ctx) -> i32 {
    let dir = ctx.scratch_dir("c04");
    let n = ctx.budget(4000, 60_000) as u64;
    let out = crate::par::run(ctx, n, std::time::Duration::from_secs(ctx.tier.pick(60, 900)), |i, rng, out| trial(&ctx.prop, i, rng, out, &dir));
    let _ = std::fs::remove_dir_all(&dir);
    let floors = vec![
        Floor { what: "adversarial trials", have: out.get("adversarial_trials"), need: 2000 },
        Floor { what: "attack kinds", have: out.sets.get("attack_kinds").map(|s| s.len()).unwrap_or(0) as u64, need: 13 },
        Floor { what: "late messages after the sender's leaf was re-used", have: out.get("late_leaf_reuse_trials"), need: 200 },
    ];
    finish(
        ctx,
        "exploration",
        "a malicious member sends rumors through create_message and through the raw OpenMLS path with arbitrary pubkey, pre-set id (random, of another member's message in this group, of a message in another group of the victim, of its own earlier message), arbitrary kind/tags/created_at; replays captured wrappers verbatim and re-wrapped (outer layer re-encrypted under the right exporter secret, fresh ephemeral key and id); re-tags a wrapper with another group's h; finally (40 % of the trials) a message naming a not-yet-member as author is held back while the admin removes the attacker and adds that member into the freed leaf, and is delivered afterwards (decrypted with past-epoch secrets). After every attack, at two honest receivers and in every group: each stored message's id must be the NIP-01 hash of its stored fields and of its stored event, its author must be the identity whose ciphertext it was, no earlier stored message may change author/content or disappear, and no body may be stored twice. distinct = distinct attack sequences",
        out,
        floors,
        vec!["the MLS-authenticated sender is known by construction (the harness knows whose stored state produced each ciphertext)".into()],
        json!({}),
    )
}
