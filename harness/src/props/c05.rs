//! C05 - only admins change roster or group data; identities never change; an admin's own
//! operation changes exactly what it names.

use std::collections::{BTreeMap, BTreeSet};

use mdk_core::prelude::*;
use nostr::{Keys, PublicKey};
use openmls::prelude::BasicCredential;
use serde_json::json;

use super::c06::{client_snapshot, snapshot_diff};
use crate::report::{Ctx, Floor, Outcome, finish};
use crate::rng::Rng;
use crate::sim::adversary as adv;
use crate::sim::scenario::*;
use crate::sim::*;
use crate::with_mdk;

#[derive(Clone, Debug, PartialEq)]
struct View {
    members: BTreeSet<PublicKey>,
    admins: BTreeSet<PublicKey>,
    gd: String,
    leaves: BTreeMap<u32, Vec<u8>>,
    epoch: u64,
}

fn view(w: &World, c: usize, g: usize) -> Option<View> {
    let gid = w.gid(g);
    with_mdk!(w.clients[c].mdk, x => {
        let grp = x.load_mls_group(&gid).ok().flatten()?;
        let gd = NostrGroupDataExtension::from_group(&grp).ok()?;
        let leaves = grp.members().map(|m| (m.index.u32(), BasicCredential::try_from(m.credential.clone()).map(|c| c.identity().to_vec()).unwrap_or_default())).collect();
        Some(View { members: x.get_members(&gid).ok()?, admins: gd.admins.clone(), gd: crate::sim::fp::fmt_gd(&gd), leaves, epoch: grp.epoch().as_u64() })
    })
}

struct Field {
    w: World,
    g: usize,
    admin0: usize,
    admin1: usize,
    n1: usize,
    n2: usize,
    removed: usize,
}

fn field(rng: &mut Rng, dir: &std::path::Path, tag: &str, sqlite_receiver: bool) -> Field {
    let mut w = World::empty(dir.to_path_buf(), tag.to_string());
    let cfg = mdk_core::MdkConfig::default();
    let a0 = w.add_client(BackendKind::Memory, cfg.clone(), rng);
    let a1 = w.add_client(BackendKind::Memory, cfg.clone(), rng);
    let n1 = w.add_client(BackendKind::Memory, cfg.clone(), rng);
    let n2 = w.add_client(if sqlite_receiver { BackendKind::Sqlite } else { BackendKind::Memory }, cfg.clone(), rng);
    let rm = w.add_client(BackendKind::Memory, cfg.clone(), rng);
    // leaf order is random behind the creator: the leaf freed by the removal below may lie anywhere,
    // so that dense positions and leaf indices differ for whoever sits to its right, and an admin may
    // sit to the right of a non-admin
    let mut rest = vec![a1, n1, n2, rm];
    rng.shuffle(&mut rest);
    let mut order = vec![a0];
    order.extend(rest);
    let g = w.create_group(&order, &[a0, a1], None, "field");
    w.t += 3;
    // remove `rm`; it never processes its removal and keeps its stale epoch-1 state
    let r = w.act_commit_remove_target(a0, g, rm, rng).unwrap();
    for c in [a1, n1, n2] {
        w.deliver(c, r, OwnMode::Echo);
    }
    Field { w, g, admin0: a0, admin1: a1, n1, n2, removed: rm }
}

#[derive(Clone, Debug, PartialEq)]
enum Content {
    Add,
    RemoveOther,
    GceAdmins,
    GceName,
    GceRelays,
    GceNid,
    PathChangedIdentity,
    /// the same with a fresh signature key in the new leaf
    PathIdentityNewSigner,
    /// an identity-changing update path in a commit that ALSO carries a Remove / an Add / a
    /// group-data change (so it is not a pure self-update)
    PathIdentityPlusRemove,
    PathIdentityPlusAdd,
    PathIdentityPlusGce,
    Mixed,
    ByReference,
    Empty,
    PureSelfUpdate,
    ProposalRemove,
    ProposalAdd,
    ProposalGce,
    ProposalUpdate,
    /// the sender's ordinary `self_update()` while another member's leave proposal sits in its queue:
    /// OpenMLS sweeps the proposal into the commit by reference
    SweepQueuedLeave,
}

const CONTENTS: [Content; 20] = [
    Content::Add,
    Content::RemoveOther,
    Content::GceAdmins,
    Content::GceName,
    Content::GceRelays,
    Content::GceNid,
    Content::PathChangedIdentity,
    Content::PathIdentityNewSigner,
    Content::PathIdentityPlusRemove,
    Content::PathIdentityPlusAdd,
    Content::PathIdentityPlusGce,
    Content::Mixed,
    Content::ByReference,
    Content::Empty,
    Content::PureSelfUpdate,
    Content::ProposalRemove,
    Content::ProposalAdd,
    Content::ProposalGce,
    Content::ProposalUpdate,
    Content::SweepQueuedLeave,
];

/// Expected effect of an accepted message.
#[derive(Clone, Debug, Default)]
struct Named {
    adds: BTreeSet<PublicKey>,
    removes: BTreeSet<PublicKey>,
    gd_changed: bool,
    is_proposal: bool,
}

fn build(f: &mut Field, sender: usize, content: &Content, rng: &mut Rng) -> Option<(Vec<u8>, Named)> {
    let gid = f.w.gid(f.g);
    let spk = f.w.clients[sender].pk();
    let other = if sender == f.n2 { f.n1 } else { f.n2 };
    let opk = f.w.clients[other].pk();
    let mut named = Named::default();
    let fresh_kp = |w: &mut World, rng: &mut Rng| -> Option<(openmls::prelude::KeyPackage, PublicKey)> {
        let j = w.add_client(BackendKind::Memory, mdk_core::MdkConfig::default(), rng);
        let ev = w.clients[j].key_package_event();
        let kp = with_mdk!(w.clients[j].mdk, x => x.parse_key_package(&ev)).ok()?;
        Some((kp, w.clients[j].pk()))
    };
    let m = &f.w.clients[sender].mdk;
    let bytes = match content {
        Content::Add => {
            let (kp, pk) = fresh_kp(&mut f.w, rng)?;
            named.adds.insert(pk);
            with_mdk!(f.w.clients[sender].mdk, x => adv::mls_commit(x, &gid, &adv::RawCommit { adds: vec![kp], ..Default::default() }, false))?.0
        }
        Content::RemoveOther => {
            named.removes.insert(opk);
            with_mdk!(m, x => adv::mls_commit(x, &gid, &adv::RawCommit { removes: vec![opk], ..Default::default() }, false))?.0
        }
        Content::GceAdmins | Content::GceName | Content::GceRelays | Content::GceNid => {
            named.gd_changed = true;
            let c2 = content.clone();
            let nid = rng.bytes::<32>();
            let gd = with_mdk!(m, x => adv::group_data_bytes(x, &gid, |gd| match c2 {
                Content::GceAdmins => {
                    if !gd.admins.contains(&spk.to_bytes()) { gd.admins.push(spk.to_bytes()); } else { gd.admins.retain(|a| *a == spk.to_bytes()); }
                }
                Content::GceName => gd.name = b"renamed-by-raw-commit".to_vec(),
                Content::GceRelays => gd.relays = vec![b"wss://evil.example.com".to_vec()],
                _ => gd.nostr_group_id = nid,
            }))?;
            with_mdk!(m, x => adv::mls_commit(x, &gid, &adv::RawCommit { gce: Some(gd), ..Default::default() }, false))?.0
        }
        Content::PathChangedIdentity => {
            // update path whose leaf carries another identity (the victim `other`)
            with_mdk!(m, x => adv::mls_commit(x, &gid, &adv::RawCommit { force_self_update: true, new_identity: Some(opk), ..Default::default() }, false))?.0
        }
        Content::PathIdentityNewSigner | Content::PathIdentityPlusRemove | Content::PathIdentityPlusAdd | Content::PathIdentityPlusGce => {
            // the new identity is the victim's or one nobody holds; the leaf keeps the old signature
            // key or gets a fresh one
            let ident = if rng.chance(50) { opk } else { nostr::Keys::generate().public_key() };
            let new_signer = *content == Content::PathIdentityNewSigner || rng.chance(50);
            let mut raw = adv::RawCommit { force_self_update: true, new_identity: Some(ident), new_signer, ..Default::default() };
            match content {
                Content::PathIdentityPlusRemove => {
                    named.removes.insert(opk);
                    raw.removes = vec![opk];
                }
                Content::PathIdentityPlusAdd => {
                    let (kp, pk) = fresh_kp(&mut f.w, rng)?;
                    named.adds.insert(pk);
                    raw.adds = vec![kp];
                }
                Content::PathIdentityPlusGce => {
                    named.gd_changed = true;
                    raw.gce = Some(with_mdk!(f.w.clients[sender].mdk, x => adv::group_data_bytes(x, &gid, |gd| gd.description = b"with a new face".to_vec()))?);
                }
                _ => {}
            }
            with_mdk!(f.w.clients[sender].mdk, x => adv::mls_commit(x, &gid, &raw, false))?.0
        }
        Content::Mixed => {
            let (kp, pk) = fresh_kp(&mut f.w, rng)?;
            named.adds.insert(pk);
            named.removes.insert(opk);
            named.gd_changed = true;
            let gd = with_mdk!(f.w.clients[sender].mdk, x => adv::group_data_bytes(x, &gid, |gd| gd.description = b"mixed".to_vec()))?;
            with_mdk!(f.w.clients[sender].mdk, x => adv::mls_commit(x, &gid, &adv::RawCommit { adds: vec![kp], removes: vec![opk], gce: Some(gd), ..Default::default() }, false))?.0
        }
        Content::ByReference => {
            // a Remove(other) proposal by this sender, processed by the receivers first, then a
            // commit that takes the queue by reference
            return None; // handled by the planted-proposal family below
        }
        Content::SweepQueuedLeave => return None, // built through the public API in family1
        Content::Empty => with_mdk!(m, x => adv::mls_commit(x, &gid, &adv::RawCommit::default(), false))?.0,
        Content::PureSelfUpdate => with_mdk!(m, x => adv::mls_commit(x, &gid, &adv::RawCommit { force_self_update: true, ..Default::default() }, false))?.0,
        Content::ProposalRemove => {
            named.is_proposal = true;
            with_mdk!(m, x => adv::mls_proposal(x, &gid, &adv::RawProposal::Remove(opk)))?
        }
        Content::ProposalAdd => {
            named.is_proposal = true;
            let (kp, _) = fresh_kp(&mut f.w, rng)?;
            with_mdk!(f.w.clients[sender].mdk, x => adv::mls_proposal(x, &gid, &adv::RawProposal::Add(kp)))?
        }
        Content::ProposalGce => {
            named.is_proposal = true;
            let gd = with_mdk!(m, x => adv::group_data_bytes(x, &gid, |gd| gd.name = b"proposed".to_vec()))?;
            with_mdk!(m, x => adv::mls_proposal(x, &gid, &adv::RawProposal::Gce(gd)))?
        }
        Content::ProposalUpdate => {
            named.is_proposal = true;
            with_mdk!(m, x => adv::mls_proposal(x, &gid, &adv::RawProposal::SelfUpdate))?
        }
    };
    Some((bytes, named))
}

pub fn family1(prop: &str, i: u64, rng: &mut Rng, out: &mut Outcome, dir: &std::path::Path) {
    let mut f = field(rng, dir, &format!("c05-{i}"), i % 7 == 0);
    out.evaluations += 1;
    let g = f.g;
    let gid = f.w.gid(g);
    let mut labels = vec![];
    for _ in 0..rng.range(3, 6) {
        f.w.t += 2;
        let role = rng.below(4);
        let (sender, role_name) = match role {
            0 => (f.admin1, "admin"),
            1 | 2 => (f.n1, "non-admin"),
            _ => (f.removed, "removed-member"),
        };
        let content = rng.pick(&CONTENTS).clone();
        let (ev, named) = if content == Content::SweepQueuedLeave {
            // another non-admin asks to leave; the sender and the other non-admin receivers queue the
            // proposal (admins are not given it: they would auto-commit it); then the sender calls
            // the ordinary self_update(), which carries the queued Remove by reference
            // (an admin sender is family 2's business: it commits foreign proposals - known finding)
            if sender == f.removed || !f.w.is_active(sender, g) || f.w.is_admin_now(sender, g) {
                continue;
            }
            let leaver = if sender == f.n2 { f.n1 } else { f.n2 };
            if !f.w.is_active(leaver, g) || f.w.is_admin_now(leaver, g) {
                continue;
            }
            let Some(pidx) = f.w.act_leave(leaver, g) else { continue };
            for c in [f.n1, f.n2, sender] {
                if c != leaver && !f.w.is_admin_now(c, g) {
                    f.w.deliver(c, pidx, OwnMode::Echo);
                }
            }
            mdk_core::verif::set_created_at(Some(f.w.t));
            let Ok(u) = with_mdk!(f.w.clients[sender].mdk, x => x.self_update(&gid)) else { continue };
            (u.evolution_event, Named::default())
        } else {
            let Some((bytes, named)) = build(&mut f, sender, &content, rng) else { continue };
            let ts = f.w.t;
            let Some(ev) = with_mdk!(f.w.clients[sender].mdk, x => adv::wrap_as(x, &gid, &bytes, ts)) else { continue };
            (ev, named)
        };
        let idx = f.w.log.len();
        let at = f.w.clients[sender].state(g, &gid).unwrap();
        f.w.log.push(Pub { ev, kind: if named.is_proposal { PubKind::Proposal } else { PubKind::Commit }, author: sender, g, at, refs: vec![], what: format!("{role_name}:{content:?}"), rumor: None, mode: OwnMode::Echo, welcomes: vec![], adversarial: true });
        let label = format!("{role_name}:{content:?}");
        labels.push(label.clone());
        out.note("cases", label.clone());
        out.count("trials");
        let receivers: Vec<usize> = [f.admin0, f.admin1, f.n1, f.n2].into_iter().filter(|c| *c != sender).collect();
        let mut accepted_somewhere = false;
        for r in receivers {
            let before_v = view(&f.w, r, g);
            let before_s = client_snapshot(&f.w, r);
            let d = f.w.deliver(r, idx, OwnMode::Echo);
            let after_v = view(&f.w, r, g);
            let rrole = if r == f.admin0 || r == f.admin1 { "admin" } else { "non-admin" };
            out.note("results", format!("{label} @{rrole} -> {}", d.class));
            out.count("receiver_evaluations");
            let replay = json!({"kind": "c05", "scenario": i, "case": label, "receiver": r, "trace": trace_tail(&f.w, 30)});
            let (Some(b), Some(a)) = (before_v, after_v) else { continue };
            if is_refusal(&d.class) {
                let after_s = client_snapshot(&f.w, r);
                if let Some((which, parts)) = snapshot_diff(&before_s, &after_s) {
                    out.violation(format!("{prop}|rejected-but-changed|{label}|parts={}", parts.join("+")), format!("{label} refused by c{r} ({rrole}) with {} but {which} changed {:?}", d.class, parts), replay);
                    f.w.cleanup();
                    return;
                }
                continue;
            }
            accepted_somewhere = true;
            // identities at existing leaves never change
            for (leaf, ident) in &b.leaves {
                if let Some(now) = a.leaves.get(leaf) {
                    let removed_here = named.removes.iter().any(|pk| pk.to_bytes().as_slice() == ident.as_slice());
                    if now != ident && !removed_here {
                        out.violation(format!("{prop}|identity-changed-at-leaf|{label}"), format!("{label} accepted by c{r}: leaf {leaf} identity {} -> {}", hex::encode(&ident[..4]), hex::encode(&now[..4.min(now.len())])), replay);
                        f.w.cleanup();
                        return;
                    }
                }
            }
            if named.is_proposal {
                if b.members != a.members || b.admins != a.admins || b.gd != a.gd || b.epoch != a.epoch {
                    out.violation(format!("{prop}|proposal-took-effect|{label}"), format!("{label} at c{r}: a proposal alone changed roster/group data/epoch"), replay);
                    f.w.cleanup();
                    return;
                }
                continue;
            }
            let sender_is_admin = b.admins.contains(&f.w.clients[sender].pk());
            let added: BTreeSet<_> = a.members.difference(&b.members).copied().collect();
            let removed: BTreeSet<_> = b.members.difference(&a.members).copied().collect();
            let gd_changed = a.gd != b.gd;
            if !sender_is_admin {
                if !added.is_empty() || !removed.is_empty() || gd_changed || a.admins != b.admins {
                    out.violation(
                        format!("{prop}|non-admin-commit-changed-roster-or-data|{label}"),
                        format!("{label} accepted by c{r} ({rrole}) with {}: added {} removed {} group-data-changed {}", d.class, added.len(), removed.len(), gd_changed),
                        replay,
                    );
                    f.w.cleanup();
                    return;
                }
            } else if added != named.adds || removed != named.removes || gd_changed != named.gd_changed {
                out.violation(
                    format!("{prop}|admin-commit-delta-differs-from-its-proposals|{label}"),
                    format!("{label} accepted by c{r}: added {:?} (named {:?}) removed {:?} (named {:?}) gd-changed {} (named {})", added.len(), named.adds.len(), removed.len(), named.removes.len(), gd_changed, named.gd_changed),
                    replay,
                );
                f.w.cleanup();
                return;
            }
        }
        if accepted_somewhere {
            out.note("accepted_cases", label.clone());
            // the raw commit was cleared at the sender: bring the sender along by delivering its
            // own event is impossible (it cleared the pending commit), so end this field here
            break;
        }
    }
    out.distinct.insert(crate::rng::fnv(labels.join("|").as_bytes()));
    if i < 2 {
        out.sample(json!({"scenario": i, "family": 1, "cases": labels}), 4);
    }
    f.w.cleanup();
}

/// Family 2: an honest admin's API operation with proposals of others planted in its queue.
pub fn family2(prop: &str, i: u64, rng: &mut Rng, out: &mut Outcome, dir: &std::path::Path) {
    let mut f = field(rng, dir, &format!("c05b-{i}"), false);
    out.evaluations += 1;
    let g = f.g;
    let gid = f.w.gid(g);
    let admin = f.admin0;
    let planted_by = if rng.chance(60) { f.n1 } else { f.admin1 };
    let planted_role = if planted_by == f.n1 { "non-admin" } else { "other-admin" };
    let victim_pk = f.w.clients[f.n2].pk();
    let kind = rng.below(4);
    // what the planted proposal would do if somebody committed it
    let mut planted_adds: BTreeSet<PublicKey> = BTreeSet::new();
    let mut planted_removes: BTreeSet<PublicKey> = BTreeSet::new();
    let (plabel, pbytes) = match kind {
        0 => {
            planted_removes.insert(victim_pk);
            ("Remove(other)", with_mdk!(f.w.clients[planted_by].mdk, x => adv::mls_proposal(x, &gid, &adv::RawProposal::Remove(victim_pk))))
        }
        1 => {
            let j = f.w.add_client(BackendKind::Memory, mdk_core::MdkConfig::default(), rng);
            planted_adds.insert(f.w.clients[j].pk());
            let ev = f.w.clients[j].key_package_event();
            let kp = with_mdk!(f.w.clients[j].mdk, x => x.parse_key_package(&ev)).ok();
            ("Add(outsider)", kp.and_then(|kp| with_mdk!(f.w.clients[planted_by].mdk, x => adv::mls_proposal(x, &gid, &adv::RawProposal::Add(kp)))))
        }
        2 => {
            // an outsider asks to be added with an external Add proposal (sender new_member_proposal),
            // wrapped for it by a member; nobody may ever commit it (it is answered
            // ExternalJoinProposal and must not enter the queue, so `planted` stays false and any
            // extra member after the admin's operation is unexplained)
            let outsider = nostr::Keys::generate().public_key();
            ("JoinProposal(outsider)", with_mdk!(f.w.clients[planted_by].mdk, x => adv::join_proposal(x, &gid, &outsider)))
        }
        _ => ("none", None),
    };
    let mut planted = false;
    if let Some(pb) = pbytes {
        f.w.t += 1;
        let ts = f.w.t;
        if let Some(ev) = with_mdk!(f.w.clients[planted_by].mdk, x => adv::wrap_as(x, &gid, &pb, ts)) {
            let idx = f.w.log.len();
            let at = f.w.clients[planted_by].state(g, &gid).unwrap();
            f.w.log.push(Pub { ev, kind: PubKind::Proposal, author: planted_by, g, at, refs: vec![], what: format!("planted {plabel} by {planted_role}"), rumor: None, mode: OwnMode::Echo, welcomes: vec![], adversarial: true });
            for r in [f.admin0, f.admin1, f.n1, f.n2] {
                if r != planted_by {
                    let d = f.w.deliver(r, idx, OwnMode::Echo);
                    if r == admin && d.class == "PendingProposal" {
                        planted = true;
                    }
                }
            }
        }
    }
    out.note("offered_proposals", format!("{plabel} by {planted_role} -> queued at the admin: {planted}"));
    // the admin's own operation
    let op = rng.below(4);
    let before: BTreeMap<usize, View> = [f.admin0, f.admin1, f.n1, f.n2].into_iter().filter_map(|c| view(&f.w, c, g).map(|v| (c, v))).collect();
    let mut named = Named::default();
    f.w.t += 2;
    let ts = f.w.t;
    let (oplabel, cidx) = match op {
        0 => {
            named.gd_changed = true;
            ("update_group_data(name)", f.w.act_commit(admin, g, &CommitKind::Rename, ts, OwnMode::Immediate, rng.next() % 1000, rng))
        }
        1 => ("self_update", f.w.act_commit(admin, g, &CommitKind::SelfUpdate, ts, OwnMode::Immediate, 0, rng)),
        2 => {
            let n_before = f.w.clients.len();
            let r = f.w.act_commit(admin, g, &CommitKind::Add, ts, OwnMode::Immediate, 0, rng);
            if f.w.clients.len() > n_before {
                named.adds.insert(f.w.clients[n_before].pk());
            }
            ("add_members", r)
        }
        _ => {
            named.removes.insert(f.w.clients[f.n1].pk());
            // remove n1 specifically
            let gidc = gid.clone();
            let at = f.w.clients[admin].state(g, &gid).unwrap();
            let pk = f.w.clients[f.n1].pk();
            mdk_core::verif::set_created_at(Some(ts));
            let r = with_mdk!(f.w.clients[admin].mdk, x => x.remove_members(&gidc, &[pk])).ok();
            let idx = r.map(|u| {
                let idx = f.w.log.len();
                f.w.log.push(Pub { ev: u.evolution_event, kind: PubKind::Commit, author: admin, g, at, refs: vec![], what: "remove n1".into(), rumor: None, mode: OwnMode::Immediate, welcomes: vec![], adversarial: false });
                f.w.clients[admin].pending_own.insert(g, idx);
                f.w.act_merge(admin, g);
                idx
            });
            ("remove_members(n1)", idx)
        }
    };
    let label = format!("{oplabel}|planted={}:{}", if planted { plabel } else { "none" }, if planted { planted_role } else { "-" });
    out.note("cases", label.clone());
    out.count("trials");
    let Some(cidx) = cidx else {
        out.note("results", format!("{label} -> api refused"));
        f.w.cleanup();
        return;
    };
    for r in [f.admin1, f.n1, f.n2] {
        f.w.deliver(r, cidx, OwnMode::Echo);
    }
    for (c, b) in &before {
        let Some(a) = view(&f.w, *c, g) else { continue };
        if a.epoch == b.epoch {
            continue;
        }
        out.count("receiver_evaluations");
        let added: BTreeSet<_> = a.members.difference(&b.members).copied().collect();
        let removed: BTreeSet<_> = b.members.difference(&a.members).copied().collect();
        let gd_changed = a.gd != b.gd;
        if added != named.adds || removed != named.removes || gd_changed != named.gd_changed {
            // the known finding explains exactly this: the delta is what the call names PLUS what the
            // planted proposal names, nothing else
            let with_planted_adds: BTreeSet<_> = named.adds.union(&planted_adds).copied().collect();
            let with_planted_removes: BTreeSet<_> = named.removes.union(&planted_removes).copied().collect();
            let pred = if planted && added == with_planted_adds && removed == with_planted_removes && gd_changed == named.gd_changed { "admin-op-commits-foreign-pending-proposals" } else { "unexplained" };
            out.violation(
                format!("{prop}|admin-op-changed-more-than-named|{pred}"),
                format!("{label}: at c{c} the operation added {} (named {}), removed {} (named {}), group data changed {} (named {})", added.len(), named.adds.len(), removed.len(), named.removes.len(), gd_changed, named.gd_changed),
                json!({"kind": "c05", "scenario": i, "case": label, "trace": trace_tail(&f.w, 30)}),
            );
            f.w.cleanup();
            return;
        }
    }
    out.distinct.insert(crate::rng::fnv(label.as_bytes()) ^ i);
    if i < 4 {
        out.sample(json!({"scenario": i, "family": 2, "case": label}), 4);
    }
    let _ = Keys::generate;
    f.w.cleanup();
}

pub fn run(ctx: &Ctx) -> i32 {
    let dir = ctx.scratch_dir("c05");
    let n = ctx.budget(6000, 80_000) as u64;
    let out = crate::par::run(ctx, n, std::time::Duration::from_secs(ctx.tier.pick(60, 900)), |i, rng, out| {
        if i % 3 == 2 { family2(&ctx.prop, i, rng, out, &dir) } else { family1(&ctx.prop, i, rng, out, &dir) }
    });
    let _ = std::fs::remove_dir_all(&dir);
    let floors = vec![
        Floor { what: "trials", have: out.get("trials"), need: 1200 },
        Floor { what: "receiver evaluations", have: out.get("receiver_evaluations"), need: 3000 },
        Floor { what: "distinct (sender role, content) / (operation, planted) cases", have: out.sets.get("cases").map(|s| s.len()).unwrap_or(0) as u64, need: 40 },
    ];
    finish(
        ctx,
        "exploration",
        "family 1: sender role {admin, non-admin member, removed member with stale state} x content built directly with the OpenMLS commit builder / proposal API {add, remove(other), group-context-extension change of admins / name / relays / nostr id, update path with another member's identity, mixed list, empty commit, pure self-update, standalone remove / add / GCE / update proposals}, correctly wrapped, delivered to every other member (admin and non-admin receivers, one on SQLite in 1/7 of the fields); family 2: a proposal of a non-admin or of another admin is planted in an honest admin's queue, then the admin runs update_group_data / self_update / add_members / remove_members. Oracle: 20-line authorisation rule over before/after views (members, admins, group data, leaf->identity map): non-admin => nothing but its own key material; proposal => nothing; admin => delta equals the named proposals / the API arguments; identities at existing leaves never change; a refusal leaves the complete fingerprint unchanged",
        out,
        floors,
        vec!["outsiders without any exporter secret cannot produce a decryptable wrapper (that layer is C06's L1)".into()],
        json!({}),
    )
}
