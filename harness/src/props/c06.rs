//! C06 - hostile or malformed input never panics; a refused event has no effect.
//! Runs in shards of child processes so that an abort / stack overflow is observed as an abnormal
//! child exit instead of taking the monitor down.

use std::collections::BTreeMap;
use std::time::Duration;

use mdk_core::MdkConfig;
use mdk_core::prelude::*;
use nostr::base64::Engine;
use nostr::base64::engine::general_purpose::STANDARD as B64;
use nostr::{Event, EventBuilder, EventId, JsonUtil, Keys, Kind, Tag, TagKind, Tags, Timestamp, UnsignedEvent};
use serde_json::json;

use crate::report::{Ctx, Floor, Outcome, finish};
use crate::rng::Rng;
use crate::sim::adversary as adv;
use crate::sim::scenario::*;
use crate::sim::*;
use crate::with_mdk;

/// Full observable state of a client: fingerprint of every group it holds + client-wide part.
pub fn client_snapshot(w: &World, c: usize) -> BTreeMap<String, Fp> {
    let mut m = BTreeMap::new();
    for (gi, g) in w.groups.iter().enumerate() {
        m.insert(format!("g{gi}"), w.clients[c].fp(&g.gid));
    }
    let wide = with_mdk!(w.clients[c].mdk, x => crate::sim::fp::client_wide(x));
    m.insert("client".into(), Fp { rec: wide, ..Default::default() });
    m
}

pub fn snapshot_diff(a: &BTreeMap<String, Fp>, b: &BTreeMap<String, Fp>) -> Option<(String, Vec<&'static str>)> {
    for (k, va) in a {
        let vb = b.get(k)?;
        if va != vb {
            return Some((k.clone(), va.diff(vb)));
        }
    }
    None
}

#[derive(Clone, Copy, Debug, PartialEq, Eq)]
pub enum VictimState {
    Idle,
    PendingCommit,
    PendingProposals,
    Inactive,
}

pub struct Arena {
    pub w: World,
    pub g: usize,
    pub g2: usize,
    pub victim: usize,
    pub attacker: usize,
    pub honest: usize,
    pub state: VictimState,
}

/// 4 members: 0 = admin/creator (honest), 1 = victim (non-admin), 2 = attacker (non-admin member),
/// 3 = second honest member; victim + honest also share a second group.
pub fn arena(rng: &mut Rng, dir: &std::path::Path, tag: &str, backend: BackendKind, state: VictimState) -> Arena {
    let mut w = World::empty(dir.to_path_buf(), tag.to_string());
    let cfg = MdkConfig::default();
    let c0 = w.add_client(BackendKind::Memory, cfg.clone(), rng);
    let v = w.add_client(backend, cfg.clone(), rng);
    let a = w.add_client(BackendKind::Memory, cfg.clone(), rng);
    let h = w.add_client(BackendKind::Memory, cfg.clone(), rng);
    let g = w.create_group(&[c0, v, a, h], &[c0], None, "arena");
    let g2 = w.create_group(&[h, v], &[h], None, "other");
    w.t += 5;
    // some history so that past epochs / messages exist
    let m0 = w.act_message(c0, g, w.base_ts).unwrap();
    w.deliver(v, m0, OwnMode::Echo);
    let c = w.act_commit(c0, g, &CommitKind::Rename, w.t, OwnMode::Immediate, 1, rng).unwrap();
    for m in [v, a, h] {
        w.deliver(m, c, OwnMode::Echo);
    }
    let m1 = w.act_message(h, g2, w.base_ts).unwrap();
    w.deliver(v, m1, OwnMode::Echo);
    match state {
        VictimState::Idle => {}
        VictimState::PendingCommit => {
            w.act_commit(v, g, &CommitKind::SelfUpdate, w.t, OwnMode::Echo, 0, rng);
        }
        VictimState::PendingProposals => {
            // the second honest member asks to leave; the (non-admin) victim queues the proposal
            if let Some(l) = w.act_leave(h, g) {
                w.deliver(v, l, OwnMode::Echo);
            }
        }
        VictimState::Inactive => {
            if let Some(r) = w.act_commit_remove_target(c0, g, v, rng) {
                w.deliver(v, r, OwnMode::Echo);
            }
        }
    }
    Arena { w, g, g2, victim: v, attacker: a, honest: h, state }
}

impl World {
    /// admin `m` removes client `target` (immediate merge)
    pub fn act_commit_remove_target(&mut self, m: usize, g: usize, target: usize, _rng: &mut Rng) -> Option<usize> {
        let gid = self.gid(g);
        let at = self.clients[m].state(g, &gid)?;
        let pk = self.clients[target].pk();
        mdk_core::verif::set_created_at(Some(self.t));
        let r = with_mdk!(self.clients[m].mdk, x => x.remove_members(&gid, &[pk])).ok()?;
        let idx = self.log.len();
        self.log.push(Pub { ev: r.evolution_event, kind: PubKind::Commit, author: m, g, at, refs: vec![], what: format!("remove c{target}"), rumor: None, mode: OwnMode::Immediate, welcomes: vec![], adversarial: false });
        self.clients[m].pending_own.insert(g, idx);
        self.act_merge(m, g);
        Some(idx)
    }
}

/// A hostile variant of a string value an attacker controls (tag values, string parameters).
pub fn hostile_variant(orig: &str, rng: &mut Rng) -> String {
    let n = orig.len();
    match rng.below(10) {
        // same BYTE length, valid UTF-8, with a multi-byte character covering byte offset `at`
        0..=4 => {
            let wide = *rng.pick(&["\u{e9}", "\u{20ac}", "\u{1F600}"]);
            let w = wide.len();
            if n < w {
                return wide.to_string();
            }
            // the character starts at byte `start` and covers offsets start+1 .. start+w-1
            let start = rng.below(n - w + 1);
            let ascii: String = orig.chars().map(|c| if c.is_ascii() { c } else { 'x' }).collect();
            let ascii = format!("{ascii:x<n$}");
            let mut out = String::new();
            out.push_str(&ascii[..start]);
            out.push_str(wide);
            out.push_str(&ascii[start + w..n]);
            out
        }
        5 => orig[..orig.char_indices().nth(orig.chars().count() / 2).map(|x| x.0).unwrap_or(0)].to_string(),
        6 => orig.to_uppercase(),
        7 => String::new(),
        8 => format!("{orig}{}", "f".repeat(rng.range(1, 600))),
        _ => {
            let mut b: Vec<char> = orig.chars().collect();
            if !b.is_empty() {
                let p = rng.below(b.len());
                b[p] = *rng.pick(&['\0', ' ', '\n', 'g', '-', '\u{202e}']);
            }
            b.into_iter().collect()
        }
    }
}

fn resign(kind: Kind, content: String, tags: Vec<Tag>, ts: u64) -> Event {
    EventBuilder::new(kind, content).tags(tags).custom_created_at(Timestamp::from(ts)).sign_with_keys(&Keys::generate()).unwrap()
}

fn htag(id: &[u8]) -> Tag {
    Tag::custom(TagKind::h(), [hex::encode(id)])
}

/// One hostile input: (layer, label, event). `reaches` says how deep it is known to get by
/// construction (L1 = wrapper only, L2 = decrypts under the right exporter secret, L3 = authenticates in MLS).
pub struct Hostile {
    pub layer: &'static str,
    pub label: String,
    pub ev: Event,
}

pub fn gen_hostile(a: &mut Arena, rng: &mut Rng) -> Option<Hostile> {
    let gid = a.w.gid(a.g);
    let gid2 = a.w.gid(a.g2);
    let now = Timestamp::now().as_secs();
    let atk = a.attacker;
    let ts = a.w.t;
    let nid = with_mdk!(a.w.clients[atk].mdk, x => adv::nostr_group_id(x, &gid))?;
    let nid2 = with_mdk!(a.w.clients[a.honest].mdk, x => adv::nostr_group_id(x, &gid2))?;
    let choice = rng.below(100);
    if choice < 30 {
        // ---- L1: wrapper-level mutations of a valid event -------------------------------------
        let payload = with_mdk!(a.w.clients[atk].mdk, x => adv::mls_app(x, &gid, b"{\"x\":1}"))?;
        let valid = with_mdk!(a.w.clients[atk].mdk, x => adv::wrap_as(x, &gid, &payload, ts))?;
        let content = valid.content.clone();
        let k = rng.below(20);
        let (label, ev) = match k {
            0 => ("kind=1", resign(Kind::TextNote, content, vec![htag(&nid)], ts)),
            1 => ("kind=444", resign(Kind::MlsWelcome, content, vec![htag(&nid)], ts)),
            2 => ("no-h-tag", resign(Kind::MlsGroupMessage, content, vec![], ts)),
            3 => ("two-h-tags", resign(Kind::MlsGroupMessage, content, vec![htag(&nid), htag(&nid)], ts)),
            4 => ("h-31-bytes", resign(Kind::MlsGroupMessage, content, vec![htag(&nid[..31])], ts)),
            5 => ("h-33-bytes", resign(Kind::MlsGroupMessage, content, vec![htag(&[nid.to_vec(), vec![1]].concat())], ts)),
            6 => ("h-non-hex", resign(Kind::MlsGroupMessage, content, vec![Tag::custom(TagKind::h(), ["z".repeat(64)])], ts)),
            7 => ("h-empty", resign(Kind::MlsGroupMessage, content, vec![Tag::custom(TagKind::h(), [String::new()])], ts)),
            8 => ("h-of-other-group", resign(Kind::MlsGroupMessage, content, vec![htag(&nid2)], ts)),
            9 => ("h-unknown", resign(Kind::MlsGroupMessage, content, vec![htag(&rng.bytes::<32>())], ts)),
            10 => ("created_at=0", resign(Kind::MlsGroupMessage, content, vec![htag(&nid)], 0)),
            11 => ("created_at=far-future", resign(Kind::MlsGroupMessage, content, vec![htag(&nid)], now + 10_000_000)),
            12 => ("created_at=u64max", resign(Kind::MlsGroupMessage, content, vec![htag(&nid)], u64::MAX)),
            13 => ("content-not-base64", resign(Kind::MlsGroupMessage, "%%% not base64 \u{1F980}".into(), vec![htag(&nid)], ts)),
            14 => ("content-truncated", resign(Kind::MlsGroupMessage, content[..content.len() / 2].to_string(), vec![htag(&nid)], ts)),
            15 => ("content-empty", resign(Kind::MlsGroupMessage, String::new(), vec![htag(&nid)], ts)),
            _ => ("h-hostile-string", resign(Kind::MlsGroupMessage, content, vec![Tag::custom(TagKind::h(), [hostile_variant(&hex::encode(nid), rng)])], ts)),
        };
        return Some(Hostile { layer: "L1", label: label.into(), ev });
    }
    if choice < 60 {
        // ---- L2: correctly wrapped, mutated MLS bytes ---------------------------------------------
        let k = rng.below(12);
        let base: Vec<u8> = match k % 3 {
            0 => with_mdk!(a.w.clients[atk].mdk, x => adv::mls_app(x, &gid, b"{\"kind\":9}"))?,
            1 => with_mdk!(a.w.clients[atk].mdk, x => adv::mls_commit(x, &gid, &adv::RawCommit { force_self_update: true, ..Default::default() }, false))?.0,
            _ => with_mdk!(a.w.clients[atk].mdk, x => adv::mls_proposal(x, &gid, &adv::RawProposal::SelfUpdate))?,
        };
        let (label, bytes): (String, Vec<u8>) = match k {
            0..=2 => {
                let mut b = base.clone();
                let pos = rng.below(b.len());
                b[pos] ^= 1 << rng.below(8);
                (format!("bitflip@{}", if pos < 20 { "header" } else { "body" }), b)
            }
            3 | 4 => {
                let n = rng.below(base.len());
                ("truncated".into(), base[..n].to_vec())
            }
            5 => {
                let mut b = base.clone();
                let n = 1 + rng.below(40);
                b.extend_from_slice(&rng.vec(n));
                ("trailing-bytes".into(), b)
            }
            6 => ("one-byte-payload".into(), vec![0]),
            7 => ("random-60k".into(), rng.vec(60_000)),
            8 => {
                // a valid message of the OTHER group wrapped under this group's secret and id
                let other = with_mdk!(a.w.clients[a.honest].mdk, x => adv::mls_app(x, &gid2, b"{}"))?;
                ("other-groups-mls-message".into(), other)
            }
            9 => {
                // length prefix inflation: set a 4-byte varint prefix somewhere in the header
                let mut b = base.clone();
                if b.len() > 12 {
                    b[8] = 0xbf;
                    b[9] = 0xff;
                    b[10] = 0xff;
                    b[11] = 0xff;
                }
                ("inflated-length-prefix".into(), b)
            }
            10 => {
                // key-package bytes where a protocol message is expected
                let kp = a.w.clients[atk].key_package_event();
                ("key-package-as-payload".into(), B64.decode(kp.content.as_bytes()).unwrap_or_default())
            }
            _ => {
                let mut b = base.clone();
                b[0] ^= 0xff;
                b[1] ^= 0xff;
                ("wrong-protocol-version".into(), b)
            }
        };
        let ev = with_mdk!(a.w.clients[atk].mdk, x => adv::wrap_as(x, &gid, &bytes, ts))?;
        return Some(Hostile { layer: "L2", label, ev });
    }
    if choice < 90 {
        // ---- L3: authentic MLS application message, hostile plaintext -----------------------------
        let apk = a.w.clients[atk].pk();
        let vpk = a.w.clients[a.victim].pk();
        let good = |pk: nostr::PublicKey, content: &str| -> String {
            let mut r: UnsignedEvent = EventBuilder::new(Kind::Custom(9), content).custom_created_at(Timestamp::from(ts)).build(pk);
            r.ensure_id();
            r.as_json()
        };
        // a rumor that is VALID in every respect (author = the attacker itself, id = hash of the
        // fields) but whose fields sit at the edges of their types - what a storage layer may choke on
        let valid_extreme = |pk: nostr::PublicKey, created: u64, kind: u16, content: &str| -> String {
            let mut r: UnsignedEvent = EventBuilder::new(Kind::Custom(kind), content).custom_created_at(Timestamp::from(created)).build(pk);
            r.ensure_id();
            r.as_json()
        };
        let k = rng.below(22);
        let (label, plain): (&str, Vec<u8>) = match k {
            16 => ("valid-rumor-created_at=2^63-1", valid_extreme(apk, i64::MAX as u64, 9, "edge").into_bytes()),
            17 => ("valid-rumor-created_at=2^63", valid_extreme(apk, 1u64 << 63, 9, "edge").into_bytes()),
            18 => ("valid-rumor-created_at=u64max", valid_extreme(apk, u64::MAX, 9, "edge").into_bytes()),
            19 => ("valid-rumor-created_at=0", valid_extreme(apk, 0, 9, "edge").into_bytes()),
            20 => ("valid-rumor-kind=65535", valid_extreme(apk, ts, 65535, "edge").into_bytes()),
            21 => ("valid-rumor-content-empty", valid_extreme(apk, ts, 9, "").into_bytes()),
            0 => ("random-bytes", {
                let n = 1 + rng.below(300);
                rng.vec(n)
            }),
            1 => ("empty", vec![]),
            2 => ("malformed-json", b"{\"id\": \"abc".to_vec()),
            3 => ("json-array", b"[1,2,3]".to_vec()),
            4 => ("json-wrong-types", format!("{{\"id\":7,\"pubkey\":{{}},\"created_at\":\"x\",\"kind\":\"y\",\"tags\":5,\"content\":[]}}").into_bytes()),
            5 => ("json-deep-nesting", format!("{}1{}", "[".repeat(10_000), "]".repeat(10_000)).into_bytes()),
            6 => ("invalid-pubkey-hex", good(apk, "x").replace(&apk.to_hex(), &"zz".repeat(32)).into_bytes()),
            7 => ("pubkey-short", good(apk, "x").replace(&apk.to_hex(), "abcd").into_bytes()),
            8 => ("author-is-victim", good(vpk, "spoof").into_bytes()),
            9 => ("author-is-outsider", good(Keys::generate().public_key(), "spoof").into_bytes()),
            10 => ("huge-tags", {
                let mut r: UnsignedEvent = EventBuilder::new(Kind::Custom(9), "t").tags((0..2500).map(|i| Tag::custom(TagKind::Custom("x".into()), [format!("v{i}")]))).build(apk);
                r.ensure_id();
                r.as_json().into_bytes()
            }),
            11 => ("huge-content-50k", good(apk, &"A".repeat(50_000)).into_bytes()),
            12 => ("kind-out-of-range", good(apk, "x").replace("\"kind\":9", "\"kind\":70000").into_bytes()),
            13 => ("negative-created_at", good(apk, "x").replace(&format!("\"created_at\":{ts}"), "\"created_at\":-5").into_bytes()),
            14 => ("id-not-hex", {
                let j = good(apk, "x");
                let v: serde_json::Value = serde_json::from_str(&j).unwrap();
                let id = v["id"].as_str().unwrap().to_string();
                j.replace(&id, &"q".repeat(64)).into_bytes()
            }),
            _ => ("utf8-invalid", vec![0xff, 0xfe, 0x7b, 0x22]),
        };
        let payload = with_mdk!(a.w.clients[atk].mdk, x => adv::mls_app(x, &gid, &plain))?;
        let ev = with_mdk!(a.w.clients[atk].mdk, x => adv::wrap_as(x, &gid, &payload, ts))?;
        return Some(Hostile { layer: "L3", label: label.into(), ev });
    }
    // ---- unauthorised but well-formed protocol messages by the (non-admin) attacker ---------------
    let hpk = a.w.clients[a.honest].pk();
    if rng.chance(25) && a.state != VictimState::Inactive {
        // the attacker builds an unauthorised commit on epoch N, then the admin's valid commit
        // (later wrapper timestamp) moves the victim to N+1, then the attacker's commit arrives
        // carrying an EARLIER timestamp
        let evil = with_mdk!(a.w.clients[atk].mdk, x => adv::mls_commit(x, &gid, &adv::RawCommit { removes: vec![hpk], ..Default::default() }, false))?.0;
        let ev = with_mdk!(a.w.clients[atk].mdk, x => adv::wrap_as(x, &gid, &evil, ts.saturating_sub(30)))?;
        let admin = 0usize;
        let t = a.w.t;
        if let Some(c) = a.w.act_commit(admin, a.g, &CommitKind::Describe, t, OwnMode::Immediate, rng.next() % 1000, rng) {
            let v = a.victim;
            a.w.deliver(v, c, OwnMode::Echo);
            let h = a.honest;
            a.w.deliver(h, c, OwnMode::Echo);
            // (the attacker itself catches up afterwards so that later inputs are built on N+1)
            let at = a.attacker;
            a.w.deliver(at, c, OwnMode::Echo);
        }
        return Some(Hostile { layer: "L3p", label: "earlier-unauthorised-commit-after-valid-one".into(), ev });
    }
    if rng.chance(30) {
        // ---- MLS messages whose sender is not a member / other wire kinds (helped by the attacker,
        // who wraps them under the current exporter secret) --------------------------------------------
        let outsider = Keys::generate().public_key();
        let k = rng.below(6);
        let (label, bytes) = match k {
            0 => ("external-commit-by-outsider", with_mdk!(a.w.clients[atk].mdk, x => adv::external_commit(x, &gid, &outsider))?),
            1 => ("external-commit-claiming-a-members-identity", with_mdk!(a.w.clients[atk].mdk, x => adv::external_commit(x, &gid, &hpk))?),
            2 => ("join-proposal-by-outsider", with_mdk!(a.w.clients[atk].mdk, x => adv::join_proposal(x, &gid, &outsider))?),
            3 => ("group-info-as-payload", with_mdk!(a.w.clients[atk].mdk, x => adv::group_info_message(x, &gid))?),
            4 => ("member-commit-as-public-message", with_mdk!(a.w.clients[atk].mdk, x => adv::public_message(x, &gid, true))?),
            _ => ("member-proposal-as-public-message", with_mdk!(a.w.clients[atk].mdk, x => adv::public_message(x, &gid, false))?),
        };
        let ev = with_mdk!(a.w.clients[atk].mdk, x => adv::wrap_as(x, &gid, &bytes, ts))?;
        return Some(Hostile { layer: "L3x", label: label.into(), ev });
    }
    let k = rng.below(5);
    let (label, bytes) = match k {
        0 => ("non-admin-commit-remove", with_mdk!(a.w.clients[atk].mdk, x => adv::mls_commit(x, &gid, &adv::RawCommit { removes: vec![hpk], ..Default::default() }, false))?.0),
        1 => ("non-admin-commit-gce", {
            let bytes = with_mdk!(a.w.clients[atk].mdk, x => adv::group_data_bytes(x, &gid, |gd| gd.name = b"pwned".to_vec()))?;
            with_mdk!(a.w.clients[atk].mdk, x => adv::mls_commit(x, &gid, &adv::RawCommit { gce: Some(bytes), ..Default::default() }, false))?.0
        }),
        2 => ("empty-commit", with_mdk!(a.w.clients[atk].mdk, x => adv::mls_commit(x, &gid, &adv::RawCommit::default(), false))?.0),
        3 => ("proposal-gce", {
            let bytes = with_mdk!(a.w.clients[atk].mdk, x => adv::group_data_bytes(x, &gid, |gd| gd.name = b"pwned".to_vec()))?;
            with_mdk!(a.w.clients[atk].mdk, x => adv::mls_proposal(x, &gid, &adv::RawProposal::Gce(bytes)))?
        }),
        _ => ("proposal-self-update", with_mdk!(a.w.clients[atk].mdk, x => adv::mls_proposal(x, &gid, &adv::RawProposal::SelfUpdate))?),
    };
    let ev = with_mdk!(a.w.clients[atk].mdk, x => adv::wrap_as(x, &gid, &bytes, ts))?;
    Some(Hostile { layer: "L3p", label: label.into(), ev })
}

pub fn trial(prop: &str, i: u64, rng: &mut Rng, out: &mut Outcome, dir: &std::path::Path) {
    let state = *rng.pick(&[VictimState::Idle, VictimState::Idle, VictimState::PendingCommit, VictimState::PendingProposals, VictimState::Inactive]);
    let backend = if i % 10 == 0 { BackendKind::Sqlite } else { BackendKind::Memory };
    let mut a = arena(rng, dir, &format!("c06-{i}"), backend, state);
    out.evaluations += 1;
    out.note("victim_states", format!("{state:?}"));
    out.note("victim_backends", format!("{backend:?}"));
    let n_inputs = rng.range(6, 14);
    let mut labels = vec![];
    for k in 0..n_inputs {
        a.w.t += 1;
        let Some(h) = gen_hostile(&mut a, rng) else {
            out.count("generator_skipped");
            continue;
        };
        let v = a.victim;
        let before = client_snapshot(&a.w, v);
        let idx = a.w.log.len();
        let at = a.w.clients[a.attacker].state(a.g, &a.w.gid(a.g)).unwrap_or((a.g, 0, String::new()));
        a.w.log.push(Pub { ev: h.ev.clone(), kind: PubKind::App, author: a.attacker, g: a.g, at, refs: vec![], what: format!("{}:{}", h.layer, h.label), rumor: None, mode: OwnMode::Echo, welcomes: vec![], adversarial: true });
        let d = a.w.deliver(v, idx, OwnMode::Echo);
        out.count("hostile_inputs");
        out.count(&format!("inputs_{}", h.layer));
        out.note("input_kinds", format!("{}:{}", h.layer, h.label));
        out.note("results", format!("{}:{} -> {}", h.layer, h.label, d.class));
        labels.push(format!("{}:{} -> {}", h.layer, h.label, d.class));
        let input_label = format!("{}:{}", h.layer, h.label);
        let ev_json = h.ev.as_json();
        let replay_of = |w: &World| json!({"kind": "hostile", "scenario": i, "victim_state": format!("{state:?}"), "input": input_label, "event": ev_json, "trace": trace_tail(w, 40)});
        if let Some(p) = &d.panicked {
            out.violation(format!("{prop}|panic|{}:{}", h.layer, h.label), format!("process_message panicked on {}:{} (victim {state:?}): {p}", h.layer, h.label), replay_of(&a.w));
            return;
        }
        let after = client_snapshot(&a.w, v);
        if is_refusal(&d.class) {
            out.count("refusals_checked");
            if let Some((which, parts)) = snapshot_diff(&before, &after) {
                let pred = if !d.rollbacks.is_empty() { "rolled-back-then-refused" } else { "no-rollback" };
                out.violation(
                    if pred == "rolled-back-then-refused" { format!("{prop}|refused-but-changed|hostile:Commit|{pred}") } else { format!("{prop}|refused-but-changed|{}:{}|{}|parts={}|{pred}|result={}", h.layer, h.label, if which == format!("g{}", a.g) { "same-group" } else { "other-group-or-client" }, parts.join("+"), d.class) },
                    format!("victim ({state:?}, {backend:?}) refused {}:{} with {} but {which} changed in {:?}", h.layer, h.label, d.class, parts),
                    replay_of(&a.w),
                );
                return;
            }
        } else {
            out.count("accepted_inputs");
            out.note("accepted", format!("{}:{} -> {}", h.layer, h.label, d.class));
            // other groups must be untouched even when accepted
            let other = format!("g{}", a.g2);
            if before.get(&other) != after.get(&other) {
                out.violation(format!("{prop}|accepted-input-changed-other-group|{}:{}", h.layer, h.label), format!("accepted {}:{} changed the other group", h.layer, h.label), replay_of(&a.w));
                return;
            }
        }
        // follow-up: the victim must still process a fresh valid message of an honest member
        if k % 4 == 3 && state != VictimState::Inactive {
            if let Some(mi) = a.w.act_message(a.honest, a.g, a.w.base_ts) {
                let d2 = a.w.deliver(v, mi, OwnMode::Echo);
                out.count("followup_probes");
                if d2.class != "ApplicationMessage" {
                    out.violation(
                        format!("{prop}|later-valid-message-refused|after={}:{}|result={}", h.layer, h.label, d2.class),
                        format!("after hostile inputs {:?} the victim answers a fresh valid message with {}", labels, d2.class),
                        replay_of(&a.w),
                    );
                    return;
                }
            }
        }
    }
    out.distinct.insert(crate::rng::fnv(labels.join("|").as_bytes()));
    if i < 2 {
        out.sample(json!({"scenario": i, "victim_state": format!("{state:?}"), "inputs": labels}), 3);
    }
    a.w.cleanup();
}

// --------------------------------------------------------------------------------------------
// welcomes, key packages, binding strings (L4)
// --------------------------------------------------------------------------------------------

pub fn l4_trial(prop: &str, i: u64, rng: &mut Rng, out: &mut Outcome, dir: &std::path::Path) {
    let mut a = arena(rng, dir, &format!("c06w-{i}"), BackendKind::Memory, VictimState::Idle);
    out.evaluations += 1;
    let v = a.victim;
    // a valid welcome for the victim into a NEW group made by the attacker
    let atk = a.attacker;
    let kp = a.w.clients[v].key_package_event();
    let apk = a.w.clients[atk].pk();
    let cfgd = NostrGroupConfigData::new("inv".into(), "d".into(), None, None, None, vec![relay(0)], vec![apk]);
    let res = with_mdk!(a.w.clients[atk].mdk, x => x.create_group(&apk, vec![kp.clone()], cfgd));
    let Ok(res) = res else { return };
    let valid = res.welcome_rumors[0].clone();
    let n = rng.range(4, 10);
    let mut labels = vec![];
    for _ in 0..n {
        let mut r = valid.clone();
        let k = rng.below(18);
        let label = match k {
            14..=17 => {
                let mut tv: Vec<Tag> = r.tags.iter().cloned().collect();
                if !tv.is_empty() {
                    let ti = rng.below(tv.len());
                    let parts: Vec<String> = tv[ti].as_slice().to_vec();
                    if parts.len() > 1 {
                        let vi = 1 + rng.below(parts.len() - 1);
                        let mut np = parts.clone();
                        np[vi] = hostile_variant(&parts[vi], rng);
                        if let Ok(t) = Tag::parse(np) {
                            tv[ti] = t;
                        }
                    }
                }
                r.tags = Tags::from_list(tv);
                "one-tag-value-hostile-string"
            }
            0 => {
                r.kind = Kind::TextNote;
                "kind=1"
            }
            1 => {
                r.tags = Tags::new();
                "no-tags"
            }
            2 => {
                r.tags = Tags::from_list(r.tags.iter().filter(|t| t.kind() != TagKind::Relays).cloned().collect());
                "no-relays-tag"
            }
            3 => {
                r.tags = Tags::from_list(r.tags.iter().filter(|t| t.as_slice()[0] != "encoding").cloned().collect());
                "no-encoding-tag"
            }
            4 => {
                r.tags = Tags::from_list(r.tags.iter().map(|t| if t.as_slice()[0] == "encoding" { Tag::custom(TagKind::Custom("encoding".into()), ["hex"]) } else { t.clone() }).collect());
                "encoding=hex"
            }
            5 => {
                r.content = r.content[..r.content.len() / 2].to_string();
                "content-truncated"
            }
            6 => {
                let mut b = B64.decode(r.content.as_bytes()).unwrap_or_default();
                b.extend_from_slice(b"TRAIL");
                r.content = B64.encode(&b);
                "trailing-bytes"
            }
            7 => {
                r.content = "@@@".into();
                "content-not-base64"
            }
            8 => {
                r.id = None;
                "missing-id"
            }
            9 => {
                let mut b = B64.decode(r.content.as_bytes()).unwrap_or_default();
                let p = rng.below(b.len().max(1));
                if !b.is_empty() {
                    b[p] ^= 0x10;
                }
                r.content = B64.encode(&b);
                "bitflip"
            }
            10 => {
                r.content = B64.encode(rng.vec(500));
                "random-bytes"
            }
            11 => {
                // the key package of the victim as welcome content
                r.content = kp.content.clone();
                "key-package-as-welcome"
            }
            12 => {
                r.content = String::new();
                "empty-content"
            }
            _ => {
                r.tags = Tags::from_list(r.tags.iter().map(|t| if t.kind() == TagKind::Relays { Tag::custom(TagKind::Relays, ["not a url"]) } else { t.clone() }).collect());
                "bad-relay-url"
            }
        };
        if k != 8 {
            r.id = None;
            r.ensure_id();
        }
        let before = client_snapshot(&a.w, v);
        let wid = EventId::from_byte_array(rng.bytes::<32>());
        let res = std::panic::catch_unwind(std::panic::AssertUnwindSafe(|| with_mdk!(a.w.clients[v].mdk, x => x.process_welcome(&wid, &r))));
        out.count("hostile_inputs");
        out.count("inputs_L4_welcome");
        out.note("input_kinds", format!("L4w:{label}"));
        let replay = || json!({"kind": "hostile-welcome", "scenario": i, "input": label, "rumor": r.as_json()});
        match res {
            Err(p) => {
                out.violation(format!("{prop}|panic|L4w:{label}"), format!("process_welcome panicked on {label}: {}", crate::par::panic_msg(&p)), replay());
                return;
            }
            Ok(Ok(_)) => {
                out.note("accepted", format!("L4w:{label}"));
                labels.push(format!("L4w:{label} -> Ok"));
            }
            Ok(Err(e)) => {
                crate::capture::error("process_welcome", &e);
                out.count("refusals_checked");
                labels.push(format!("L4w:{label} -> Err({})", error_variant(&e)));
                let after = client_snapshot(&a.w, v);
                if let Some((which, parts)) = snapshot_diff(&before, &after) {
                    out.violation(
                        format!("{prop}|refused-welcome-but-changed|L4w:{label}|{}|result=Err({})", if which == "client" { "group-list-or-welcomes" } else { "existing-group" }, error_variant(&e)),
                        format!("process_welcome refused {label} with {} but {which} changed ({:?}): `{}` -> `{}`", error_variant(&e), parts, crate::util::short(&before[&which].rec, 200), crate::util::short(&after[&which].rec, 200)),
                        replay(),
                    );
                    return;
                }
            }
        }
    }
    // key-package events
    for _ in 0..rng.range(4, 10) {
        let keys = a.w.clients[atk].keys.clone();
        let (content, tags, _) = with_mdk!(a.w.clients[atk].mdk, x => x.create_key_package_for_event(&keys.public_key(), vec![relay(0)])).unwrap();
        let mut tags: Vec<Tag> = tags;
        let mut content = content;
        let mut kind = Kind::MlsKeyPackage;
        let mut signer = keys.clone();
        let k = rng.below(20);
        let label = match k {
            12..=19 => {
                // ONE value of ONE tag replaced by a hostile variant of itself: same byte length with a
                // multi-byte character across a byte offset the code may slice at, odd-length / upper-case
                // hex, prefix only, empty, over-long, embedded NUL ...
                let ti = rng.below(tags.len());
                let parts: Vec<String> = tags[ti].as_slice().to_vec();
                if parts.len() > 1 {
                    let vi = 1 + rng.below(parts.len() - 1);
                    let mut np = parts.clone();
                    np[vi] = hostile_variant(&parts[vi], rng);
                    if let Ok(t) = Tag::parse(np) {
                        tags[ti] = t;
                    }
                }
                "one-tag-value-hostile-string"
            }
            0 => {
                tags.remove(rng.below(tags.len()));
                "tag-removed"
            }
            1 => {
                let t = tags[rng.below(tags.len())].clone();
                tags.push(t);
                "tag-duplicated"
            }
            2 => {
                tags = tags.into_iter().map(|t| if t.as_slice().len() > 1 { Tag::parse([t.as_slice()[0].clone(), "garbage".to_string()]).unwrap_or(t) } else { t }).collect();
                "all-values-garbage"
            }
            3 => {
                content = content[..content.len() / 3].to_string();
                "content-truncated"
            }
            4 => {
                content = "!!!".into();
                "content-not-base64"
            }
            5 => {
                signer = Keys::generate();
                "signed-by-other-key"
            }
            6 => {
                kind = Kind::TextNote;
                "kind=1"
            }
            7 => {
                let mut b = B64.decode(content.as_bytes()).unwrap_or_default();
                let p = rng.below(b.len().max(1));
                b[p] ^= 4;
                content = B64.encode(&b);
                "bitflip"
            }
            8 => {
                content = B64.encode(rng.vec(300));
                "random-bytes"
            }
            9 => {
                tags = vec![];
                "no-tags"
            }
            10 => {
                content = String::new();
                "empty"
            }
            _ => {
                tags = tags.into_iter().map(|t| if t.kind() == TagKind::i() { Tag::custom(TagKind::i(), ["zz"]) } else { t }).collect();
                "i-tag-not-hex"
            }
        };
        let ev = EventBuilder::new(kind, content).tags(tags).sign_with_keys(&signer).unwrap();
        let before = client_snapshot(&a.w, v);
        let res = std::panic::catch_unwind(std::panic::AssertUnwindSafe(|| with_mdk!(a.w.clients[v].mdk, x => x.parse_key_package(&ev).map(|_| ()).map_err(|e| { crate::capture::error("parse_key_package", &e); e }))));
        out.count("hostile_inputs");
        out.count("inputs_L4_keypackage");
        out.note("input_kinds", format!("L4k:{label}"));
        match res {
            Err(p) => {
                out.violation(format!("{prop}|panic|L4k:{label}"), format!("parse_key_package panicked on {label}: {}", crate::par::panic_msg(&p)), json!({"event": ev.as_json()}));
                return;
            }
            Ok(r) => {
                labels.push(format!("L4k:{label} -> {}", if r.is_ok() { "Ok" } else { "Err" }));
                let after = client_snapshot(&a.w, v);
                if snapshot_diff(&before, &after).is_some() {
                    out.violation(format!("{prop}|parse_key_package-changed-state|L4k:{label}"), format!("parse_key_package({label}) changed client state"), json!({"event": ev.as_json()}));
                    return;
                }
            }
        }
    }
    out.distinct.insert(crate::rng::fnv(labels.join("|").as_bytes()));
    if i < 1 {
        out.sample(json!({"scenario": i, "inputs": labels}), 4);
    }
}

// --------------------------------------------------------------------------------------------
// uniffi facade: every String parameter
// --------------------------------------------------------------------------------------------

fn hostile_strings(rng: &mut Rng) -> Vec<String> {
    vec![
        String::new(),
        "zz".into(),
        "abc".into(),
        "0".repeat(63),
        "0".repeat(64),
        "g".repeat(64),
        "\u{1F980}\u{0000}\u{FFFF}".into(),
        "{".into(),
        "[]".into(),
        "{}".into(),
        "null".into(),
        "\"str\"".into(),
        "{\"id\":1}".into(),
        format!("{}1{}", "[".repeat(5000), "]".repeat(5000)),
        "A".repeat(1_000_000),
        hex::encode(rng.vec(32)),
        hex::encode(rng.vec(17)),
        " 00".into(),
        "0x00".into(),
        // valid-looking ids (64 / 66 / 32 hex characters) with one multi-byte character inside, byte length preserved
        hostile_variant(&"ab".repeat(32), rng),
        hostile_variant(&"0".repeat(64), rng),
        hostile_variant(&"c".repeat(66), rng),
        hostile_variant(&"1f".repeat(16), rng),
        hostile_variant("wss://relay.example.com/path", rng),
        "{\"kind\":445,\"content\":\"\",\"tags\":[],\"pubkey\":\"00\",\"id\":\"00\",\"sig\":\"00\",\"created_at\":0}".into(),
    ]
}

pub fn uniffi_trial(prop: &str, i: u64, rng: &mut Rng, out: &mut Outcome, dir: &std::path::Path) {
    use mdk_uniffi as u;
    out.evaluations += 1;
    let path = dir.join(format!("uni-{i}.db"));
    let mdk = match u::new_mdk_unencrypted(path.to_string_lossy().to_string(), None) {
        Ok(m) => m,
        Err(_) => {
            out.inconclusive.push("uniffi constructor failed".into());
            return;
        }
    };
    let strings = hostile_strings(rng);
    let mut calls = 0u64;
    let mut labels = vec![];
    macro_rules! probe {
        ($name:expr, $e:expr) => {{
            let r = std::panic::catch_unwind(std::panic::AssertUnwindSafe(|| match $e {
                Ok(_) => true,
                Err(e) => {
                    crate::capture::error(concat!("uniffi:", $name), &e);
                    false
                }
            }));
            calls += 1;
            match r {
                Err(p) => {
                    out.violation(format!("{prop}|panic|uniffi:{}", $name), format!("uniffi {} panicked: {}", $name, crate::par::panic_msg(&p)), json!({"fn": $name}));
                    return;
                }
                Ok(ok) => labels.push(format!("{}={}", $name, ok)),
            }
        }};
    }
    for s in &strings {
        let s2 = strings[rng.below(strings.len())].clone();
        probe!("parse_key_package", mdk.parse_key_package(s.clone()));
        probe!("get_group", mdk.get_group(s.clone()));
        probe!("get_members", mdk.get_members(s.clone()));
        probe!("get_messages", mdk.get_messages(s.clone(), None, None, None));
        probe!("get_message", mdk.get_message(s.clone(), s2.clone()));
        probe!("get_last_message", mdk.get_last_message(s.clone(), s2.clone()));
        probe!("get_welcome", mdk.get_welcome(s.clone()));
        probe!("process_welcome", mdk.process_welcome(s.clone(), s2.clone()));
        probe!("accept_welcome_json", mdk.accept_welcome_json(s.clone()));
        probe!("decline_welcome_json", mdk.decline_welcome_json(s.clone()));
        probe!("get_relays", mdk.get_relays(s.clone()));
        probe!("create_group", mdk.create_group(s.clone(), vec![s2.clone()], "n".into(), "d".into(), vec![s.clone()], vec![s2.clone()]));
        probe!("add_members", mdk.add_members(s.clone(), vec![s2.clone()]));
        probe!("remove_members", mdk.remove_members(s.clone(), vec![s2.clone()]));
        probe!("merge_pending_commit", mdk.merge_pending_commit(s.clone()));
        probe!("clear_pending_commit", mdk.clear_pending_commit(s.clone()));
        probe!("sync_group_metadata_from_mls", mdk.sync_group_metadata_from_mls(s.clone()));
        probe!("create_message", mdk.create_message(s.clone(), s2.clone(), "c".into(), 9, None));
        probe!("self_update", mdk.self_update(s.clone()));
        probe!("leave_group", mdk.leave_group(s.clone()));
        probe!("process_message", mdk.process_message(s.clone()));
        probe!("create_key_package_for_event", mdk.create_key_package_for_event(s.clone(), vec![s2.clone()]));
        probe!("derive_upload_keypair", u::derive_upload_keypair(s.as_bytes().to_vec(), 2));
        probe!("decrypt_group_image", u::decrypt_group_image(s.as_bytes().to_vec(), None, s2.as_bytes().to_vec(), s.as_bytes().to_vec()));
    }
    out.add("hostile_inputs", calls);
    out.add("inputs_uniffi_calls", calls);
    out.distinct.insert(crate::rng::fnv(format!("uniffi-{i}-{}", labels.len()).as_bytes()));
    if i == 0 {
        out.sample(json!({"uniffi_calls": calls, "first": labels.iter().take(30).collect::<Vec<_>>()}), 5);
    }
    drop(mdk);
    for suf in ["", "-journal", "-wal", "-shm"] {
        let _ = std::fs::remove_file(format!("{}{}", path.display(), suf));
    }
}

// --------------------------------------------------------------------------------------------
// parent / child orchestration
// --------------------------------------------------------------------------------------------

pub fn child(ctx: &Ctx, rest: &[String]) -> i32 {
    // vcheck C06-child <shard> <n_trials> <outfile>
    let shard: u64 = rest.first().and_then(|s| s.parse().ok()).unwrap_or(0);
    let n: u64 = rest.get(1).and_then(|s| s.parse().ok()).unwrap_or(10);
    let outfile = rest.get(2).cloned().unwrap_or_default();
    let dir = ctx.scratch_dir(&format!("c06-{shard}"));
    let mut out = Outcome::default();
    for k in 0..n {
        let i = shard * 1_000_000 + k;
        let mut rng = Rng::for_scenario(ctx.seed, "C06", i);
        match k % 10 {
            0..=6 => trial("C06", i, &mut rng, &mut out, &dir),
            7 | 8 => l4_trial("C06", i, &mut rng, &mut out, &dir),
            _ => {
                if k % 50 == 9 {
                    uniffi_trial("C06", i, &mut rng, &mut out, &dir)
                } else {
                    l4_trial("C06", i, &mut rng, &mut out, &dir)
                }
            }
        }
    }
    let _ = std::fs::remove_dir_all(&dir);
    std::fs::write(&outfile, serde_json::to_string(&out).unwrap()).expect("write shard outcome");
    0
}

pub fn run(ctx: &Ctx) -> i32 {
    let total = ctx.budget(3200, 60_000) as u64;
    let shards = (ctx.threads as u64).max(1) * ctx.tier.pick(2, 8) as u64;
    let per = total.div_ceil(shards);
    let exe = std::env::current_exe().expect("current exe");
    let tmp = ctx.scratch_dir("c06-parent");
    let mut out = Outcome::default();
    let next = std::sync::atomic::AtomicU64::new(0);
    let results = std::sync::Mutex::new(vec![]);
    std::thread::scope(|s| {
        for _ in 0..ctx.threads.max(1) {
            s.spawn(|| {
                loop {
                    let shard = next.fetch_add(1, std::sync::atomic::Ordering::SeqCst);
                    if shard >= shards {
                        break;
                    }
                    let outfile = tmp.join(format!("shard-{shard}.json"));
                    let st = std::process::Command::new(&exe)
                        .arg("C06-child")
                        .arg("--seed")
                        .arg(ctx.seed.to_string())
                        .arg("--verif-dir")
                        .arg(&ctx.verif_dir)
                        .arg(shard.to_string())
                        .arg(per.to_string())
                        .arg(outfile.to_string_lossy().to_string())
                        .env("RUST_MIN_STACK", "8388608")
                        .stdout(std::process::Stdio::null())
                        .stderr(std::process::Stdio::piped())
                        .spawn()
                        .and_then(|c| wait_timeout(c, Duration::from_secs(ctx.tier.pick(240, 1500))));
                    results.lock().unwrap().push((shard, st, outfile));
                }
            });
        }
    });
    for (shard, st, outfile) in results.into_inner().unwrap() {
        match st {
            Ok(ChildEnd::Exited(0)) => match std::fs::read_to_string(&outfile).ok().and_then(|s| serde_json::from_str::<Outcome>(&s).ok()) {
                Some(o) => out.merge(o),
                None => out.inconclusive.push(format!("shard {shard}: no outcome file")),
            },
            Ok(ChildEnd::Exited(code)) => out.inconclusive.push(format!("shard {shard}: child exit code {code} (harness error)")),
            Ok(ChildEnd::Signal(sig, stderr)) => {
                // SIGKILL (9) = most likely the OOM killer: inconclusive. SIGABRT / SIGSEGV / SIGBUS /
                // SIGILL = abort, stack overflow or memory error inside a library call.
                if sig == 9 {
                    out.inconclusive.push(format!("shard {shard}: child killed by SIGKILL (OOM?)"));
                } else {
                    out.violation(format!("C06|abnormal-exit|signal={sig}"), format!("shard {shard} (seed {}, {per} trials) died with signal {sig}: {}", ctx.seed, crate::util::short(&stderr, 400)), json!({"kind": "shard", "shard": shard, "per": per, "seed": ctx.seed}));
                }
            }
            Ok(ChildEnd::TimedOut) => out.inconclusive.push(format!("shard {shard}: watchdog fired")),
            Err(e) => out.inconclusive.push(format!("shard {shard}: spawn failed {e}")),
        }
    }
    let _ = std::fs::remove_dir_all(&tmp);
    // second workload: refusals that occur in ordinary (non-hostile) histories - out-of-order
    // commits, lost races, leave proposals at admins with a pending commit, evicted members ...
    let (_, hout) = crate::props::histcheck::run_outcome(ctx);
    out.merge(hout);
    let floors = vec![
        Floor { what: "refusals checked inside ordinary histories", have: out.get("c06_history_refusals_checked"), need: 1000 },
        Floor { what: "hostile inputs", have: out.get("hostile_inputs"), need: 2000 },
        Floor { what: "refusals whose no-effect condition was checked", have: out.get("refusals_checked"), need: 1000 },
        Floor { what: "inputs that decrypt under the right exporter secret (L2)", have: out.get("inputs_L2"), need: 200 },
        Floor { what: "inputs that authenticate in MLS (L3)", have: out.get("inputs_L3") + out.get("inputs_L3p"), need: 200 },
        Floor { what: "distinct input kinds", have: out.sets.get("input_kinds").map(|s| s.len()).unwrap_or(0) as u64, need: 60 },
    ];
    finish(
        ctx,
        "exploration",
        "structure-aware hostile inputs at four depths delivered to a victim in states {idle, pending commit, pending proposals, inactive, two groups}: L1 wrapper fields; L2 correctly NIP-44-wrapped mutated MLS bytes; L3 authentic MLS application messages with hostile plaintext and well-formed but unauthorised proposals/commits; L4 welcome rumors, key-package events and every String parameter of the uniffi facade. Oracle: no panic (catch_unwind; abnormal child exit observed by the parent); refusal => fingerprint of every group + group list + pending welcomes unchanged; a fresh valid message is still processed afterwards. Non-trivial/distinct = distinct sequences of (input kind -> result) per trial",
        out,
        floors,
        vec![
            "the dedup/failure record is not part of the observable state".into(),
            "child killed by SIGKILL or by the watchdog is inconclusive, not a violation".into(),
        ],
        json!({"shards": shards, "trials_per_shard": per}),
    )
}

pub enum ChildEnd {
    Exited(i32),
    Signal(i32, String),
    TimedOut,
}

pub fn wait_timeout(c: std::process::Child, d: Duration) -> std::io::Result<ChildEnd> {
    wait_capture(c, d).map(|(e, _, _)| e)
}

/// Waits for the child with a watchdog while two reader threads drain its piped stdout / stderr
/// (a child that fills a pipe nobody reads would block for ever and be misjudged as a hang).
pub fn wait_capture(mut c: std::process::Child, d: Duration) -> std::io::Result<(ChildEnd, String, String)> {
    use std::io::Read;
    use std::os::unix::process::ExitStatusExt;
    fn drain<R: Read + Send + 'static>(r: Option<R>) -> std::thread::JoinHandle<String> {
        std::thread::spawn(move || {
            let mut buf = Vec::new();
            if let Some(mut r) = r {
                let _ = r.read_to_end(&mut buf);
            }
            String::from_utf8_lossy(&buf).into_owned()
        })
    }
    let so = drain(c.stdout.take());
    let se = drain(c.stderr.take());
    let start = std::time::Instant::now();
    let end = loop {
        if let Some(st) = c.try_wait()? {
            break st;
        }
        if start.elapsed() > d {
            let _ = c.kill();
            let _ = c.wait();
            // grandchildren may keep the pipes open: do not join the readers
            return Ok((ChildEnd::TimedOut, String::new(), String::new()));
        }
        std::thread::sleep(Duration::from_millis(50));
    };
    let out = so.join().unwrap_or_default();
    let err = se.join().unwrap_or_default();
    Ok(match end.code() {
        Some(code) => (ChildEnd::Exited(code), out, err),
        None => (ChildEnd::Signal(end.signal().unwrap_or(-1), err.clone()), out, err),
    })
}
