//! C07, directed half: an authentic commit that the library REFUSES (a non-admin's self_update that
//! swept a queued leave proposal: CommitFromNonAdmin) and an ordinary commit of the same epoch, with
//! every order of their wrapper timestamps; the victim gets the refused one first, applies the
//! other, and is then handed both again. Re-delivery of what already took effect must change nothing.

use serde_json::json;

use crate::report::Outcome;
use crate::rng::Rng;
use crate::sim::scenario::*;
use crate::sim::*;

pub fn trial(i: u64, rng: &mut Rng, out: &mut Outcome, dir: &std::path::Path) {
    let mut w = World::empty(dir.to_path_buf(), format!("c07d-{i}"));
    let mut cfg = mdk_core::MdkConfig::default();
    cfg.epoch_snapshot_retention = *rng.pick(&[5usize, 2, 1]);
    let a0 = w.add_client(BackendKind::Memory, cfg.clone(), rng);
    let n1 = w.add_client(BackendKind::Memory, cfg.clone(), rng);
    let v = w.add_client(if i % 4 == 0 { BackendKind::Sqlite } else { BackendKind::Memory }, cfg.clone(), rng);
    let l = w.add_client(BackendKind::Memory, cfg.clone(), rng);
    let g = w.create_group(&[a0, n1, v, l], &[a0], None, "c07-directed");
    let gid = w.gid(g);
    out.evaluations += 1;
    // some history so that messages exist
    for m in [a0, n1] {
        w.t += 1;
        let ts = w.base_ts + w.msg_counter;
        if let Some(idx) = w.act_message(m, g, ts) {
            w.deliver(v, idx, OwnMode::Echo);
        }
    }
    w.t += 2;
    let Some(leave) = w.act_leave(l, g) else {
        w.cleanup();
        return;
    };
    // the two non-admins queue the leave; the admin is not shown it (it would auto-commit)
    w.deliver(n1, leave, OwnMode::Echo);
    w.deliver(v, leave, OwnMode::Echo);
    let t = w.t;
    let (dr, da) = *rng.pick(&[(0u64, 0u64), (1, 0), (0, 1)]);
    let Some(refused) = w.act_commit(n1, g, &CommitKind::SelfUpdate, t + dr, OwnMode::Echo, 0, rng) else {
        w.cleanup();
        return;
    };
    let kind = rng.pick(&[CommitKind::Rename, CommitKind::SelfUpdate, CommitKind::Relays]).clone();
    let Some(applied) = w.act_commit(a0, g, &kind, t + da, OwnMode::Immediate, rng.next() % 1000, rng) else {
        w.cleanup();
        return;
    };
    let d1 = w.deliver(v, refused, OwnMode::Echo);
    let d2 = w.deliver(v, applied, OwnMode::Echo);
    out.note("c07dir_first_results", format!("refused-first:{} then applied:{} (ts refused+{dr} applied+{da})", d1.class, d2.class));
    if !d1.class.contains("CommitFromNonAdmin") || !d2.class.starts_with("Commit") || !d2.rollbacks.is_empty() {
        w.cleanup();
        return;
    }
    out.count("c07dir_trials_in_shape");
    // a message in the new epoch, so that an unwanted rollback has something to invalidate
    w.t += 2;
    let ts = w.base_ts + w.msg_counter;
    if let Some(idx) = w.act_message(a0, g, ts) {
        w.deliver(v, idx, OwnMode::Echo);
    }
    let before = w.clients[v].fp(&gid);
    let snaps_before = snapshot_names(&w, v, &gid);
    let mut seq = vec![applied, refused, applied, leave, applied];
    rng.shuffle(&mut seq[1..]);
    let mut classes = vec![];
    for idx in seq {
        let d = w.deliver(v, idx, OwnMode::Echo);
        classes.push(format!("e{idx}:{}{}", d.class, if d.rollbacks.is_empty() { "" } else { " ROLLBACK" }));
    }
    out.count("c07dir_redeliveries");
    let after = w.clients[v].fp(&gid);
    let snaps_after = snapshot_names(&w, v, &gid);
    if before != after {
        let parts = before.diff(&after);
        out.violation(
            format!("C07|changed|directed:applied-commit-after-a-refused-commit|parts={}", parts.join("+")),
            format!("victim refused a non-admin commit (ts+{dr}), applied the admin's commit of the same epoch (ts+{da}), and re-delivering both ({}) changed {:?}; e.g. {}: `{}` -> `{}`", classes.join(", "), parts, parts[0], crate::util::short(before.part(parts[0]), 200), crate::util::short(after.part(parts[0]), 200)),
            json!({"kind": "c07dir", "scenario": i, "trace": trace_tail(&w, 40)}),
        );
    } else if snaps_before != snaps_after {
        out.violation("C07|changed|directed:snapshot-set-changed-by-redelivery", format!("re-delivery changed the stored rollback snapshots: {snaps_before:?} -> {snaps_after:?}"), json!({"kind": "c07dir", "scenario": i, "trace": trace_tail(&w, 40)}));
    }
    out.distinct.insert(crate::rng::fnv(format!("{dr}-{da}-{:?}-{}", kind, classes.join(",")).as_bytes()));
    w.cleanup();
}

fn snapshot_names(w: &World, c: usize, gid: &mdk_storage_traits::GroupId) -> Vec<String> {
    use mdk_storage_traits::MdkStorageProvider;
    use openmls_traits::OpenMlsProvider;
    let mut v: Vec<String> = crate::with_mdk!(w.clients[c].mdk, x => x.provider.storage().list_group_snapshots(gid).unwrap_or_default().into_iter().map(|(n, _)| n.rsplit('_').nth(1).unwrap_or("").to_string()).collect());
    v.sort();
    v
}
