//! C11 - restarting on persistent storage is invisible (twin runs).
//! The subject S is SQLite-backed. After a first phase its database file is copied; twin S1
//! continues on the original and never restarts; twin S2 continues on the copy, receives exactly
//! the same events in the same order and is dropped and re-created from the file at chosen
//! positions. After every step result class and fingerprint must agree.

use std::path::{Path, PathBuf};

use mdk_core::MdkConfig;
use serde_json::json;

use crate::report::{Ctx, Floor, Outcome, finish};
use crate::rng::Rng;
use crate::sim::scenario::*;
use crate::sim::*;

fn copy_db(from: &Path, to: &Path) {
    for suf in ["", "-journal", "-wal", "-shm"] {
        let f = PathBuf::from(format!("{}{}", from.display(), suf));
        let t = PathBuf::from(format!("{}{}", to.display(), suf));
        let _ = std::fs::remove_file(&t);
        if f.exists() {
            std::fs::copy(&f, &t).expect("copy db");
        }
    }
}

fn rm_db(p: &Path) {
    for suf in ["", "-journal", "-wal", "-shm"] {
        let _ = std::fs::remove_file(format!("{}{}", p.display(), suf));
    }
}

/// One random step of the surrounding world; `exclude` never acts (but receives).
fn world_step(w: &mut World, g: usize, rng: &mut Rng, exclude: Option<usize>, s: usize, s_deliveries: &mut Vec<usize>, retention: usize) {
    w.t += 2;
    let actors: Vec<usize> = (0..w.clients.len()).filter(|i| Some(*i) != exclude && w.groups[g].invited.contains(i) && w.is_active(*i, g)).collect();
    if actors.is_empty() {
        return;
    }
    let r = rng.below(100);
    if r < 22 {
        let k = rng.range(1, 3);
        let mut order = actors.clone();
        rng.shuffle(&mut order);
        let mut made = 0;
        for m in order {
            if made == k {
                break;
            }
            if w.clients[m].pending_own.contains_key(&g) {
                continue;
            }
            if let Some(od) = w.overdue_commit(m, g, retention, true, true) {
                w.deliver(m, od, OwnMode::Echo);
                if m == s {
                    s_deliveries.push(od);
                }
                continue;
            }
            let gid = w.gid(g);
            let cur = w.clients[m].state(g, &gid).map(|x| x.1).unwrap_or(0);
            if cur + (retention as u64) <= w.max_epoch(g) {
                continue;
            }
            let admin = w.is_admin_now(m, g);
            let kind = if admin { rng.pick(&[CommitKind::SelfUpdate, CommitKind::Rename, CommitKind::Describe, CommitKind::Relays, CommitKind::RelaysNone, CommitKind::Image]).clone() } else { CommitKind::SelfUpdate };
            let ts = w.t + rng.below(2) as u64;
            if w.act_commit(m, g, &kind, ts, OwnMode::Echo, rng.next() % 100_000, rng).is_some() {
                made += 1;
            }
        }
    } else if r < 45 {
        let m = *rng.pick(&actors);
        // distinct rumor timestamps: with created_at ties the display order (and the last-message
        // pointer) falls back to processed_at, a wall-clock value the twins cannot share
        let ts = w.base_ts + w.msg_counter;
        w.act_message(m, g, ts);
    } else {
        let all: Vec<usize> = (0..w.clients.len()).filter(|i| w.groups[g].invited.contains(i)).collect();
        // the subject receives more often than the others
        let m = if rng.chance(45) { s } else { *rng.pick(&all) };
        let cand: Vec<usize> = (0..w.log.len()).filter(|i| w.log[*i].g == g && w.eligible(m, *i, true, true) && (!w.clients[m].seen.contains(i) || (w.log[*i].author == m && !w.clients[m].first_result.contains_key(i)) || rng.chance(6))).collect();
        if cand.is_empty() {
            return;
        }
        let mut idx = *rng.pick(&cand);
        if let Some(od) = w.overdue_commit(m, g, retention, true, true) {
            idx = od;
        }
        w.deliver(m, idx, OwnMode::Echo);
        if m == s {
            s_deliveries.push(idx);
        }
    }
}

fn twin(prop: &str, i: u64, rng: &mut Rng, out: &mut Outcome, dir: &Path) {
    out.evaluations += 1;
    let sub = dir.join(format!("t{}", i % 64));
    let _ = std::fs::create_dir_all(&sub);
    let mut w = World::empty(sub.clone(), format!("c11-{i}"));
    let retention = *rng.pick(&[5usize, 5, 3, 2]);
    let mut cfg = MdkConfig::default();
    cfg.epoch_snapshot_retention = retention;
    let n = rng.range(3, 4);
    let mut members = vec![];
    for k in 0..n {
        // the subject is the last member: SQLite, never an admin
        let b = if k == n - 1 { BackendKind::Sqlite } else { BackendKind::Memory };
        members.push(w.add_client(b, cfg.clone(), rng));
    }
    let s = members[n - 1];
    let g = w.create_group(&members, &[members[0], members[1]], None, "twin");
    let mut dummy = vec![];
    // in four of ten segments the subject's rollback-snapshot queue is FULL when its database is
    // copied: `retention`..`retention`+3 linear commits first (a queue re-read from storage then has
    // to keep its order and its bound while new snapshots are added)
    if i % 10 < 4 {
        for k in 0..retention + rng.below(4) {
            w.t += 2;
            let t0 = w.t;
            let kind = if k % 2 == 0 { CommitKind::SelfUpdate } else { CommitKind::Rename };
            if let Some(ci) = w.act_commit(members[0], g, &kind, t0, OwnMode::Immediate, k as u64, rng) {
                for &m in members.iter().skip(1) {
                    w.deliver(m, ci, OwnMode::Echo);
                }
            }
        }
        out.count("segments_starting_with_a_full_snapshot_queue");
    }
    // ---- phase A: anything may happen, the subject acts too ------------------------------------
    for _ in 0..rng.range(8, 25) {
        world_step(&mut w, g, rng, None, s, &mut dummy, retention);
    }
    // quiescent point: copy the subject's database
    let orig = w.clients[s].db_path.clone().unwrap();
    let snap = sub.join(format!("c11-{i}-snap.db"));
    copy_db(&orig, &snap);
    let s_pending_commit = w.clients[s].pending_own.contains_key(&g);
    // ---- phase B: S1 (original) only receives ------------------------------------------------------
    let mut deliveries: Vec<usize> = vec![];
    let gid = w.gid(g);
    let mut s1_obs: Vec<(String, Fp)> = vec![];
    let steps_b = rng.range(15, 40);
    for _ in 0..steps_b {
        let before = deliveries.len();
        world_step(&mut w, g, rng, Some(s), s, &mut deliveries, retention);
        if deliveries.len() > before {
            let idx = *deliveries.last().unwrap();
            // class of this delivery = last trace entry class; re-derive from first_result is wrong
            // for re-deliveries, so read the trace line
            let class = w.trace.iter().rev().find(|l| l.starts_with(&format!("D m{s} e{idx}("))).and_then(|l| l.split(" -> ").nth(1)).map(|x| x.split("  [").next().unwrap_or("").to_string()).unwrap_or_default();
            s1_obs.push((class, w.clients[s].fp(&gid)));
        }
        if deliveries.len() >= 25 {
            break;
        }
    }
    // final re-offer of everything to S1 (in log order)
    for idx in 0..w.log.len() {
        if w.log[idx].g == g && w.eligible(s, idx, true, true) && deliveries.len() < 60 {
            let d = w.deliver(s, idx, OwnMode::Echo);
            deliveries.push(idx);
            s1_obs.push((format!("{}{}", d.class, if d.rollbacks.is_empty() { String::new() } else { format!(" ROLLBACK->{}", d.rollbacks[0].target_epoch) }), w.clients[s].fp(&gid)));
        }
    }
    let had_rollback = s1_obs.iter().any(|(c, _)| c.contains("ROLLBACK"));
    if had_rollback {
        out.count("twin_segments_with_rollback_in_phase_b");
    }
    if s_pending_commit {
        out.count("twin_segments_with_own_pending_commit_at_copy");
    }
    out.add("phase_b_deliveries", deliveries.len() as u64);
    // ---- S2 runs: restart sets ------------------------------------------------------------------------
    let nd = deliveries.len();
    if nd == 0 {
        return;
    }
    let mut restart_sets: Vec<Vec<usize>> = vec![vec![0], (0..nd).collect()];
    for _ in 0..3 {
        restart_sets.push(vec![rng.below(nd)]);
    }
    let mut rs: Vec<usize> = (0..nd).filter(|_| rng.chance(25)).collect();
    if rs.is_empty() {
        rs.push(nd / 2);
    }
    restart_sets.push(rs);
    // a restart right after every rollback-free "Commit" (worse commit applied -> restart -> better arrives)
    let after_commits: Vec<usize> = (0..nd).filter(|k| *k > 0 && s1_obs[*k - 1].0.starts_with("Commit")).collect();
    if !after_commits.is_empty() {
        restart_sets.push(after_commits);
    }
    let keys = w.clients[s].keys.clone();
    for (ri, rset) in restart_sets.iter().enumerate() {
        let copy = sub.join(format!("c11-{i}-twin{ri}.db"));
        copy_db(&snap, &copy);
        let mut c2 = Client::new(w.clients.len(), BackendKind::Memory, cfg.clone(), &sub, "unused", rng);
        c2.keys = keys.clone();
        c2.backend = BackendKind::Sqlite;
        c2.db_path = Some(copy.clone());
        c2.mdk = Client::open(BackendKind::Sqlite, &cfg, &c2.cb, Some(&copy), None);
        let s2 = w.clients.len();
        c2.reached = w.clients[s].reached.clone();
        w.clients.push(c2);
        w.groups[g].invited.insert(s2);
        out.count("twin_runs");
        let mut restarts = 0;
        // epoch -> delivery step at which the restarted twin applied that epoch's commit (its
        // rollback snapshot was taken then); epochs applied before the copy are absent
        let mut applied_step: std::collections::HashMap<u64, usize> = Default::default();
        let mut last_restart_step: Option<usize> = None;
        for (k, &idx) in deliveries.iter().enumerate() {
            if rset.contains(&k) {
                w.clients[s2].restart();
                restarts += 1;
                last_restart_step = Some(k);
            }
            let d = w.deliver(s2, idx, OwnMode::Echo);
            if let (Some(b), Some(a)) = (&d.before, &d.after)
                && a.1 == b.1 + 1
            {
                applied_step.insert(b.1, k);
            }
            let class = format!("{}{}", d.class, if d.rollbacks.is_empty() { String::new() } else { format!(" ROLLBACK->{}", d.rollbacks[0].target_epoch) });
            let fp2 = w.clients[s2].fp(&gid);
            out.count("steps_compared");
            let (c1, fp1) = &s1_obs[k];
            let c1n = c1.trim().to_string();
            let same_class = c1n.split(' ').next() == class.split(' ').next();
            if !same_class || *fp1 != fp2 {
                // history-derived predicate: the twin without restarts rolled back on this event,
                // the restarted twin holds a snapshot for that epoch (hydrated from storage) and refused
                let p = &w.log[idx];
                // ... AND that snapshot was taken before the most recent restart (only then it has
                // been re-read from storage without the commit's timestamp): a snapshot taken in the
                // current process must still work
                let snapshot_predates_restart = match (applied_step.get(&p.at.1), last_restart_step) {
                    (None, _) => true, // applied before the database was copied: the twin itself starts from a re-opened file
                    (Some(_), None) => false,
                    (Some(a), Some(r)) => a < &r,
                };
                let pred = if c1n.contains("ROLLBACK") && !class.contains("ROLLBACK") && p.kind == PubKind::Commit && snapshot_predates_restart {
                    "better-commit-after-restart-not-recognised"
                } else if c1n.contains("ROLLBACK") && !class.contains("ROLLBACK") && p.kind == PubKind::Commit {
                    "better-commit-not-recognised-although-its-snapshot-was-taken-after-the-last-restart"
                } else if *fp1 != fp2 && same_class {
                    "same-result-different-state"
                } else {
                    "unexplained"
                };
                let parts = fp1.diff(&fp2);
                let first_diff = parts.first().map(|p| format!("{p}: `{}` vs `{}`", crate::util::short(fp1.part(p), 400), crate::util::short(fp2.part(p), 400))).unwrap_or_default();
                out.violation(
                    format!("{prop}|twin-diverged|{pred}"),
                    format!("segment {i}, restart set #{ri} {:?}: at delivery {k} (e{idx}, {:?} by m{}) the never-restarted twin answered `{c1n}` and the restarted twin `{class}`; differing parts {:?}; {first_diff}", rset.iter().take(8).collect::<Vec<_>>(), p.kind, p.author, parts),
                    json!({"kind": "twin", "scenario": i, "restart_set": rset, "deliveries": deliveries, "trace": trace_tail(&w, 60)}),
                );
                break;
            }
        }
        out.add("restarts", restarts);
        // retire the twin
        let c2 = w.clients.pop().unwrap();
        w.groups[g].invited.remove(&s2);
        drop(c2);
        rm_db(&copy);
    }
    out.distinct.insert(crate::rng::fnv(format!("{:?}", deliveries).as_bytes()) ^ (nd as u64));
    if i < 2 {
        out.sample(json!({"segment": i, "deliveries_to_subject": deliveries, "s1_results": s1_obs.iter().map(|x| x.0.clone()).collect::<Vec<_>>(), "restart_sets": restart_sets.iter().map(|r| r.iter().take(10).collect::<Vec<_>>()).collect::<Vec<_>>()}), 3);
    }
    rm_db(&snap);
    w.cleanup();
}

pub fn run(ctx: &Ctx) -> i32 {
    let dir = ctx.scratch_dir("c11");
    let n = ctx.budget(400, 6000) as u64;
    let out = crate::par::run(ctx, n, std::time::Duration::from_secs(ctx.tier.pick(90, 1200)), |i, rng, out| twin(&ctx.prop, i, rng, out, &dir));
    let _ = std::fs::remove_dir_all(&dir);
    let floors = vec![
        Floor { what: "twin runs", have: out.get("twin_runs"), need: 300 },
        Floor { what: "steps compared", have: out.get("steps_compared"), need: 5000 },
        Floor { what: "restarts", have: out.get("restarts"), need: 1000 },
        Floor { what: "segments whose never-restarted twin rolled back", have: out.get("twin_segments_with_rollback_in_phase_b"), need: 10 },
        Floor { what: "segments with an own pending commit at copy time", have: out.get("twin_segments_with_own_pending_commit_at_copy"), need: 5 },
    ];
    finish(
        ctx,
        "exploration",
        "twin segments cut from generated histories: phase A (8-25 steps, the SQLite-backed subject acts too: own pending commits, own Created messages, queued state), copy of the database file at a quiescent point, phase B (only other members act; the subject receives up to 60 deliveries incl. duplicates and a final re-offer of everything). The copy is replayed with restart sets {before the first delivery, before every delivery, 3 random singletons, a random 25% subset, after every applied commit}; after EVERY delivery the result class and the complete fingerprint of the restarted twin must equal those recorded for the never-restarted twin. distinct = distinct delivery sequences",
        out,
        floors,
        vec!["processed_at and other wall-clock values are not compared".into(), "clean shutdown only (the instance is dropped between two API calls); crashes are C12".into()],
        json!({}),
    )
}
