//! C12 - a crash at any storage step leaves a recoverable database (fault enumeration).
//! A child process re-opens a copy of the subject's database, installs a tick hook (H2) that calls
//! `std::process::abort()` at the k-th storage statement boundary (real process death: no
//! destructors, connection never closed, hot journal left behind) and performs the operation.
//! The parent then re-opens the file and continues.

use std::collections::BTreeSet;
use std::path::{Path, PathBuf};
use std::sync::Arc;
use std::sync::atomic::{AtomicU64, Ordering};
use std::time::Duration;

use mdk_core::prelude::*;
use mdk_core::{MDK, MdkConfig};
use mdk_sqlite_storage::MdkSqliteStorage;
use mdk_sqlite_storage::verif::{TickAction, set_thread_tick_hook, set_tick_hook};
use nostr::{Event, EventBuilder, EventId, JsonUtil, Kind, Timestamp, UnsignedEvent};
use serde_json::json;

use super::c06::{ChildEnd, wait_timeout};
use crate::report::{Ctx, Floor, Outcome, finish};
use crate::rng::Rng;
use crate::sim::scenario::*;
use crate::sim::*;
use crate::with_mdk;

fn copy_db(from: &Path, to: &Path) {
    for suf in ["", "-journal", "-wal", "-shm"] {
        let f = PathBuf::from(format!("{}{}", from.display(), suf));
        let t = PathBuf::from(format!("{}{}", to.display(), suf));
        let _ = std::fs::remove_file(&t);
        if f.exists() {
            let _ = std::fs::copy(&f, &t);
        }
    }
}
fn rm_db(p: &Path) {
    for suf in ["", "-journal", "-wal", "-shm"] {
        let _ = std::fs::remove_file(format!("{}{}", p.display(), suf));
    }
}

/// method name inside a `with_connection` closure type name, e.g.
/// `<… as …StorageProvider<1>>::write_tree<…>::{{closure}}` -> `write_tree`
pub fn short_label(l: &str) -> String {
    if !l.contains("::") {
        return l.to_string();
    }
    let cut = l.split("::{{closure}}").next().unwrap_or(l);
    // drop generic arguments
    let mut depth = 0i32;
    let mut flat = String::new();
    for ch in cut.chars() {
        match ch {
            '<' => depth += 1,
            '>' => depth -= 1,
            c if depth == 0 => flat.push(c),
            _ => {}
        }
    }
    flat.rsplit("::").find(|s| !s.is_empty()).unwrap_or(&flat).to_string()
}

/// Coarse phase of an API call a storage tick belongs to (signature vocabulary).
fn phase_of(short: &str) -> &'static str {
    const MLS_MERGE: [&str; 13] = ["write_group_state", "write_tree", "write_confirmation_tag", "write_context", "write_interim_transcript_hash", "write_group_epoch_secrets", "write_message_secrets", "write_encryption_epoch_key_pairs", "delete_encryption_epoch_key_pairs", "clear_proposal_queue", "write_resumption_psk_store", "delete_own_leaf_nodes", "write_own_leaf_index"];
    const RECORD: [&str; 8] = ["save_group_exporter_secret", "replace_group_relays", "save_group", "save_processed_message", "save_message", "save_welcome", "save_processed_welcome", "write_mls_join_config"];
    if MLS_MERGE.contains(&short) {
        "mls-state-writes"
    } else if RECORD.contains(&short) {
        "record-sync-writes"
    } else if short.starts_with("after_") || short.starts_with("before_") || short == "snapshot_group_state" || short == "restore_row" || short == "restore_group_from_snapshot" {
        "explicit-transaction"
    } else {
        "reads-or-other"
    }
}

fn is_write_label(l: &str) -> bool {
    let s = short_label(l);
    ["write_", "save_", "delete_", "replace_", "queue_", "append_", "remove_", "clear_", "invalidate_", "mark_", "snapshot_group_state", "restore_group_from_snapshot", "delete_group_snapshot", "prune_"].iter().any(|p| s.starts_with(p) || s.contains("::after_") || s.contains("::before_") || s.contains("::restore_row"))
        || l.contains("::after_")
        || l.contains("::before_")
        || l.contains("restore_row")
}

// --------------------------------------------------------------------------------------------
// child
// --------------------------------------------------------------------------------------------

/// vcheck C12-child <db> <abort_at> <mode> [args...]
pub fn child(_ctx: &Ctx, rest: &[String]) -> i32 {
    let db = PathBuf::from(&rest[0]);
    let abort_at: u64 = rest[1].parse().unwrap_or(0);
    let mode = rest[2].as_str();
    let counter = Arc::new(AtomicU64::new(0));
    let c2 = counter.clone();
    let labels: Arc<std::sync::Mutex<Vec<String>>> = Arc::new(std::sync::Mutex::new(vec![]));
    let l2 = labels.clone();
    let storage = MdkSqliteStorage::new_unencrypted(&db).expect("child: open db");
    let mdk = MDK::builder(storage).with_config(MdkConfig::default()).build();
    // arm the hook only now: opening + migrations are not part of the operation under test
    set_tick_hook(Some(Arc::new(move |label| {
        let n = c2.fetch_add(1, Ordering::SeqCst) + 1;
        if abort_at == 0 {
            l2.lock().unwrap().push(label.to_string());
        }
        if abort_at != 0 && n == abort_at {
            std::process::abort();
        }
        TickAction::Continue
    })));
    match mode {
        "process" => {
            let lines = std::fs::read_to_string(&rest[3]).expect("events file");
            for l in lines.lines().filter(|l| !l.trim().is_empty()) {
                let ev = Event::from_json(l).expect("event json");
                let _ = mdk.process_message(&ev);
            }
        }
        "welcome" => {
            let wid = EventId::from_hex(&rest[3]).expect("wrapper id");
            let rumor = UnsignedEvent::from_json(std::fs::read_to_string(&rest[4]).expect("rumor file")).expect("rumor json");
            if let Ok(w) = mdk.process_welcome(&wid, &rumor) {
                let _ = mdk.accept_welcome(&w);
            }
        }
        "create_message" => {
            let gid = GroupId::from_slice(&hex::decode(&rest[3]).unwrap());
            let rumor = UnsignedEvent::from_json(std::fs::read_to_string(&rest[4]).expect("rumor file")).expect("rumor json");
            if let Ok(ev) = mdk.create_message(&gid, rumor) {
                // "published"
                let _ = std::fs::write(format!("{}.published", db.display()), ev.as_json());
            }
        }
        "self_update" => {
            let gid = GroupId::from_slice(&hex::decode(&rest[3]).unwrap());
            if let Ok(u) = mdk.self_update(&gid) {
                // the application publishes the commit before it merges it
                let _ = std::fs::write(format!("{}.published", db.display()), u.evolution_event.as_json());
                let _ = mdk.merge_pending_commit(&gid);
            }
        }
        "create_group" => {
            let kps: Vec<Event> = std::fs::read_to_string(&rest[3]).expect("kp file").lines().filter(|l| !l.trim().is_empty()).map(|l| Event::from_json(l).expect("kp json")).collect();
            let creator = nostr::PublicKey::from_hex(&rest[4]).expect("creator pk");
            if let Ok(r) = mdk.create_group(&creator, kps, new_group_config(creator)) {
                let _ = std::fs::write(format!("{}.published", db.display()), hex::encode(r.group.mls_group_id.as_slice()));
            }
        }
        _ => return 2,
    }
    set_tick_hook(None);
    println!("TICKS {}", counter.load(Ordering::SeqCst));
    if abort_at == 0 {
        let _ = std::fs::write(format!("{}.labels", db.display()), labels.lock().unwrap().join("\n"));
    }
    0
}

fn new_group_config(creator: nostr::PublicKey) -> NostrGroupConfigData {
    NostrGroupConfigData::new("created-under-fire".into(), "second group of the subject".into(), None, None, None, vec![relay(0), relay(2)], vec![creator])
}

// --------------------------------------------------------------------------------------------
// parent
// --------------------------------------------------------------------------------------------

#[derive(Clone, Copy, Debug, PartialEq, Eq)]
enum Template {
    AppMessage,
    Proposal,
    Commit,
    CommitWithRollback,
    Welcome,
    CreateMessage,
    SelfUpdateMerge,
    CreateGroup,
}

static NOTE_REACCEPT: std::sync::atomic::AtomicU64 = std::sync::atomic::AtomicU64::new(0);
const TEMPLATES: [Template; 8] = [Template::AppMessage, Template::Proposal, Template::Commit, Template::CommitWithRollback, Template::Welcome, Template::CreateMessage, Template::SelfUpdateMerge, Template::CreateGroup];

struct Prepared {
    w: World,
    g: usize,
    s: usize,
    p: usize,
    pre_s: PathBuf,
    pre_p: PathBuf,
    /// the interrupted events (receiver templates) in order
    events: Vec<usize>,
    /// child mode + args
    mode: Vec<String>,
    /// later events of peers (log indices), created after the operation in the uninterrupted world
    later: Vec<usize>,
    labels: Vec<String>,
    twin_fp: Fp,
    twin_wide: String,
}

fn count_ticks<T>(f: impl FnOnce() -> T) -> (T, Vec<String>) {
    let labels = Arc::new(std::sync::Mutex::new(vec![]));
    let l2 = labels.clone();
    set_thread_tick_hook(Some(Arc::new(move |label| {
        l2.lock().unwrap().push(label.to_string());
        TickAction::Continue
    })));
    let r = f();
    set_thread_tick_hook(None);
    let v = labels.lock().unwrap().clone();
    (r, v)
}

fn prepare(t: Template, i: u64, rng: &mut Rng, dir: &Path) -> Option<Prepared> {
    let sub = dir.join(format!("case-{i}"));
    let _ = std::fs::create_dir_all(&sub);
    let mut w = World::empty(sub.clone(), format!("c12-{i}"));
    let cfg = MdkConfig::default();
    let a = w.add_client(BackendKind::Memory, cfg.clone(), rng); // admin / creator
    let p = w.add_client(BackendKind::Sqlite, cfg.clone(), rng); // peer whose state can be copied
    let s = w.add_client(BackendKind::Sqlite, cfg.clone(), rng); // the subject
    let q = w.add_client(BackendKind::Memory, cfg.clone(), rng);
    let members: Vec<usize> = if t == Template::Welcome { vec![a, p, q] } else { vec![a, p, s, q] };
    let g = w.create_group(&members, &[a], None, "crash");
    let gid = w.gid(g);
    // a little history
    for _ in 0..rng.range(1, 3) {
        w.t += 2;
        let m = *rng.pick(&members);
        let ts = w.base_ts + w.msg_counter;
        if let Some(idx) = w.act_message(m, g, ts) {
            for c in members.clone() {
                w.deliver(c, idx, OwnMode::Echo);
            }
        }
    }
    w.t += 2;
    let pre_s = sub.join("pre-s.db");
    let pre_p = sub.join("pre-p.db");
    let mut events = vec![];
    let mut mode: Vec<String> = vec![];
    let evfile = sub.join("events.jsonl");
    let write_events = |w: &World, idxs: &[usize]| {
        let s: String = idxs.iter().map(|i| w.log[*i].ev.as_json() + "\n").collect();
        std::fs::write(&evfile, s).unwrap();
    };
    let s_db = w.clients[s].db_path.clone().unwrap();
    let p_db = w.clients[p].db_path.clone().unwrap();
    let labels: Vec<String>;
    match t {
        Template::AppMessage | Template::Proposal | Template::Commit => {
            let ts = w.base_ts + w.msg_counter;
            let t0 = w.t;
            let idx = match t {
                Template::AppMessage => w.act_message(a, g, ts)?,
                Template::Proposal => w.act_leave(q, g)?,
                _ => {
                    let kind = rng.pick(&[CommitKind::Rename, CommitKind::SelfUpdate, CommitKind::Relays, CommitKind::RotateNid]).clone();
                    let c = w.act_commit(a, g, &kind, t0, OwnMode::Immediate, rng.next() % 10_000, rng)?;
                    w.deliver(p, c, OwnMode::Echo);
                    w.deliver(q, c, OwnMode::Echo);
                    c
                }
            };
            copy_db(&s_db, &pre_s);
            copy_db(&p_db, &pre_p);
            events.push(idx);
            write_events(&w, &events);
            mode = vec!["process".into(), evfile.to_string_lossy().into()];
            let ((), l) = count_ticks(|| {
                w.deliver(s, idx, OwnMode::Echo);
            });
            labels = l;
        }
        Template::CommitWithRollback => {
            // B (later timestamp) is applied first; A (earlier timestamp, same epoch) arrives now
            let t0 = w.t;
            let ca = w.act_commit(a, g, &CommitKind::Rename, t0, OwnMode::Echo, 7, rng)?;
            // p commits concurrently with a later timestamp (p is not an admin: pure self-update)
            let cb = w.act_commit(p, g, &CommitKind::SelfUpdate, t0 + 1, OwnMode::Echo, 0, rng)?;
            w.deliver(s, cb, OwnMode::Echo);
            // a message on the losing branch so that invalidation has something to do
            w.deliver(p, cb, OwnMode::Echo);
            let ts = w.base_ts + w.msg_counter;
            if let Some(mb) = w.act_message(p, g, ts) {
                w.deliver(s, mb, OwnMode::Echo);
            }
            copy_db(&s_db, &pre_s);
            copy_db(&p_db, &pre_p);
            events.push(ca);
            write_events(&w, &events);
            mode = vec!["process".into(), evfile.to_string_lossy().into()];
            let (d, l) = count_ticks(|| w.deliver(s, ca, OwnMode::Echo));
            if d.rollbacks.is_empty() {
                return None;
            }
            labels = l;
            for c in [a, p, q] {
                w.deliver(c, ca, OwnMode::Echo);
            }
        }
        Template::Welcome => {
            let kp = w.clients[s].key_package_event();
            copy_db(&s_db, &pre_s);
            copy_db(&p_db, &pre_p);
            mdk_core::verif::set_created_at(Some(w.t));
            let at = w.clients[a].state(g, &gid)?;
            let u = with_mdk!(w.clients[a].mdk, x => x.add_members(&gid, &[kp])).ok()?;
            let rumor = u.welcome_rumors.clone()?[0].clone();
            let idx = w.log.len();
            w.log.push(Pub { ev: u.evolution_event, kind: PubKind::Commit, author: a, g, at, refs: vec![], what: "add subject".into(), rumor: None, mode: OwnMode::Immediate, welcomes: vec![(s, rumor.clone())], adversarial: false });
            w.clients[a].pending_own.insert(g, idx);
            w.act_merge(a, g);
            w.deliver(p, idx, OwnMode::Echo);
            w.deliver(q, idx, OwnMode::Echo);
            w.groups[g].invited.insert(s);
            let rf = sub.join("rumor.json");
            std::fs::write(&rf, rumor.as_json()).unwrap();
            let wid = EventId::from_byte_array(rng.bytes::<32>());
            mode = vec!["welcome".into(), wid.to_hex(), rf.to_string_lossy().into()];
            let ((), l) = count_ticks(|| {
                if let Ok(wl) = with_mdk!(w.clients[s].mdk, x => x.process_welcome(&wid, &rumor)) {
                    let _ = with_mdk!(w.clients[s].mdk, x => x.accept_welcome(&wl));
                }
            });
            labels = l;
            if let Some(st) = w.clients[s].state(g, &gid) {
                w.clients[s].reached.insert(st);
            }
        }
        Template::CreateMessage => {
            copy_db(&s_db, &pre_s);
            copy_db(&p_db, &pre_p);
            let mut rumor: UnsignedEvent = EventBuilder::new(Kind::Custom(9), format!("crash-body-{i}")).custom_created_at(Timestamp::from(w.base_ts + 500)).build(w.clients[s].pk());
            rumor.ensure_id();
            let rf = sub.join("rumor.json");
            std::fs::write(&rf, rumor.as_json()).unwrap();
            mode = vec!["create_message".into(), hex::encode(gid.as_slice()), rf.to_string_lossy().into()];
            let (r, l) = count_ticks(|| with_mdk!(w.clients[s].mdk, x => x.create_message(&gid, rumor.clone())));
            labels = l;
            let ev = r.ok()?;
            let idx = w.log.len();
            let at = w.clients[s].state(g, &gid)?;
            w.log.push(Pub { ev, kind: PubKind::App, author: s, g, at, refs: vec![], what: "subject message".into(), rumor: Some(rumor), mode: OwnMode::Echo, welcomes: vec![], adversarial: false });
            for c in [a, p, q] {
                w.deliver(c, idx, OwnMode::Echo);
            }
        }
        Template::CreateGroup => {
            // the subject creates a SECOND group with the admin and the peer (their key packages
            // exist before the databases are copied, so the peer copy can join later)
            let kps = vec![w.clients[a].key_package_event(), w.clients[p].key_package_event()];
            copy_db(&s_db, &pre_s);
            copy_db(&p_db, &pre_p);
            let kf = sub.join("kps.jsonl");
            std::fs::write(&kf, kps.iter().map(|e| e.as_json() + "\n").collect::<String>()).unwrap();
            let spk = w.clients[s].pk();
            mode = vec!["create_group".into(), kf.to_string_lossy().into(), spk.to_hex()];
            let (r, l) = count_ticks(|| with_mdk!(w.clients[s].mdk, x => x.create_group(&spk, kps.clone(), new_group_config(spk))));
            labels = l;
            r.ok()?;
        }
        Template::SelfUpdateMerge => {
            copy_db(&s_db, &pre_s);
            copy_db(&p_db, &pre_p);
            mode = vec!["self_update".into(), hex::encode(gid.as_slice())];
            let t0 = w.t;
            let (r, l) = count_ticks(|| w.act_commit(s, g, &CommitKind::SelfUpdate, t0, OwnMode::Immediate, 0, rng));
            labels = l;
            let c = r?;
            for m in [a, p, q] {
                w.deliver(m, c, OwnMode::Echo);
            }
        }
    }
    // later events from peers (uninterrupted world); the subject receives them too
    let mut later = vec![];
    w.t += 2;
    let ts = w.base_ts + w.msg_counter;
    if let Some(m1) = w.act_message(a, g, ts) {
        later.push(m1);
    }
    let t0 = w.t;
    if let Some(c1) = w.act_commit(a, g, &CommitKind::Describe, t0, OwnMode::Immediate, rng.next() % 1000, rng) {
        later.push(c1);
        for m in [p, q] {
            w.deliver(m, c1, OwnMode::Echo);
        }
    }
    let ts = w.base_ts + w.msg_counter;
    if let Some(m2) = w.act_message(a, g, ts) {
        later.push(m2);
    }
    for idx in later.clone() {
        w.deliver(s, idx, OwnMode::Echo);
    }
    let twin_fp = w.clients[s].fp(&gid);
    let twin_wide = with_mdk!(w.clients[s].mdk, x => crate::sim::fp::client_wide(x));
    Some(Prepared { w, g, s, p, pre_s, pre_p, events, mode, later, labels, twin_fp, twin_wide })
}

/// Everything must load.
fn loads_ok(c: &Client, gid: &GroupId, expect_group: bool) -> Result<(), String> {
    with_mdk!(c.mdk, x => {
        let groups = x.get_groups().map_err(|e| format!("get_groups: {e}"))?;
        for g in &groups {
            if g.state == group_types::GroupState::Pending {
                continue;
            }
            match x.load_mls_group(&g.mls_group_id) {
                Ok(Some(_)) => {}
                Ok(None) => return Err(format!("group record ({:?}) without MLS group", g.state)),
                Err(e) => return Err(format!("load_mls_group: {e}")),
            }
            x.get_members(&g.mls_group_id).map_err(|e| format!("get_members: {e}"))?;
            x.get_messages(&g.mls_group_id, None).map_err(|e| format!("get_messages: {e}"))?;
            x.get_relays(&g.mls_group_id).map_err(|e| format!("get_relays: {e}"))?;
        }
        if expect_group && !groups.iter().any(|g| &g.mls_group_id == gid) {
            return Err("group missing after reopen".into());
        }
        x.get_pending_welcomes(None).map_err(|e| format!("get_pending_welcomes: {e}"))?;
        Ok(())
    })
}

fn run_case(prop: &str, t: Template, i: u64, rng: &mut Rng, out: &mut Outcome, dir: &Path, exhaustive: bool, max_cuts: usize) {
    let Some(mut pr) = prepare(t, i, rng, dir) else {
        out.count("templates_not_prepared");
        return;
    };
    out.evaluations += 1;
    // pilot: the same child binary, never aborting, on a copy of the pre-operation database; its
    // tick sequence is exactly what the aborting children will see
    {
        let pilot_db = pr.pre_s.with_file_name("pilot.db");
        copy_db(&pr.pre_s, &pilot_db);
        let mut cmd = std::process::Command::new(std::env::current_exe().unwrap());
        cmd.arg("C12-child").arg(&pilot_db).arg("0");
        for a in &pr.mode {
            cmd.arg(a);
        }
        let st = cmd.stdout(std::process::Stdio::null()).stderr(std::process::Stdio::null()).spawn().and_then(|c| wait_timeout(c, Duration::from_secs(60)));
        let lf = format!("{}.labels", pilot_db.display());
        let labels = std::fs::read_to_string(&lf).unwrap_or_default();
        let _ = std::fs::remove_file(&lf);
        rm_db(&pilot_db);
        if !matches!(st, Ok(ChildEnd::Exited(0))) || labels.is_empty() {
            out.inconclusive.push(format!("{t:?}: pilot child failed"));
            pr.w.cleanup();
            return;
        }
        pr.labels = labels.lines().map(|l| l.to_string()).collect();
    }
    if t == Template::CommitWithRollback && !pr.labels.iter().any(|l| l.contains("restore_group_from_snapshot")) {
        // a freshly started process does not recognise the better commit at all (hydrated
        // snapshots carry no commit timestamp - C11's known finding); crash points inside the
        // restore transaction are therefore exercised in-process (see `in_process_txn_faults`)
        out.note("templates", format!("{t:?}"));
        out.evaluations += 0;
        out.violation(
            format!("{prop}|differs-from-uninterrupted-run|op=CommitWithRollback|better-commit-after-restart-not-recognised"),
            "the child process (a restart) answers the MIP-03-better commit without rolling back; no storage cut involved".to_string(),
            json!({"kind": "crash", "template": "CommitWithRollback", "labels": pr.labels.iter().map(|l| short_label(l)).collect::<Vec<_>>()}),
        );
        rm_db(&pr.pre_s);
        rm_db(&pr.pre_p);
        pr.w.cleanup();
        return;
    }
    let n = pr.labels.len();
    out.note("templates", format!("{t:?}"));
    out.note("ticks_per_template", format!("{t:?}={n}"));
    for l in &pr.labels {
        out.note("tick_labels", short_label(l));
    }
    let gid = pr.w.gid(pr.g);
    // cut points: every write boundary (+ the tick right after the last write), sampled reads
    let mut cuts: Vec<usize> = (1..=n).filter(|k| exhaustive || is_write_label(&pr.labels[*k - 1]) || rng.chance(10)).collect();
    if cuts.len() > max_cuts {
        rng.shuffle(&mut cuts);
        cuts.truncate(max_cuts);
        cuts.sort();
    }
    let exe = std::env::current_exe().unwrap();
    let keys = pr.w.clients[pr.s].keys.clone();
    let cfg = MdkConfig::default();
    for k in cuts {
        let label = short_label(&pr.labels[k - 1]);
        let cut_db = pr.pre_s.with_file_name(format!("cut-{k}.db"));
        copy_db(&pr.pre_s, &cut_db);
        let mut cmd = std::process::Command::new(&exe);
        cmd.arg("C12-child").arg(&cut_db).arg(k.to_string());
        for a in &pr.mode {
            cmd.arg(a);
        }
        let st = cmd.stdout(std::process::Stdio::piped()).stderr(std::process::Stdio::piped()).spawn().and_then(|c| wait_timeout(c, Duration::from_secs(60)));
        match st {
            Ok(ChildEnd::Signal(6, _)) => {}
            Ok(ChildEnd::Exited(0)) => {
                // the child finished before tick k (tick counts differ slightly between runs)
                out.count("cuts_beyond_end");
                rm_db(&cut_db);
                continue;
            }
            Ok(ChildEnd::TimedOut) => {
                out.inconclusive.push(format!("{t:?} cut {k}: child watchdog"));
                rm_db(&cut_db);
                continue;
            }
            Ok(ChildEnd::Signal(sig, err)) => {
                out.inconclusive.push(format!("{t:?} cut {k}: child died with signal {sig}: {}", crate::util::short(&err, 200)));
                rm_db(&cut_db);
                continue;
            }
            Ok(ChildEnd::Exited(c)) => {
                out.inconclusive.push(format!("{t:?} cut {k}: child exit {c}"));
                rm_db(&cut_db);
                continue;
            }
            Err(e) => {
                out.inconclusive.push(format!("spawn: {e}"));
                rm_db(&cut_db);
                continue;
            }
        }
        out.count("cuts");
        out.note("cut_labels", format!("{t:?}@{label}"));
        out.distinct.insert(crate::rng::fnv(format!("{t:?}|{label}|{k}").as_bytes()));
        let replay = json!({"kind": "crash", "template": format!("{t:?}"), "cut": k, "label": label, "ticks": n, "labels": pr.labels.iter().map(|l| short_label(l)).collect::<Vec<_>>()});
        let sig_tail = format!("op={t:?}|label={label}");
        // ---- reopen -----------------------------------------------------------------------------------
        let opened = std::panic::catch_unwind(|| MdkSqliteStorage::new_unencrypted(&cut_db));
        let storage = match opened {
            Ok(Ok(s)) => s,
            Ok(Err(e)) => {
                out.violation(format!("{prop}|database-does-not-open|{sig_tail}"), format!("{t:?} killed at tick {k}/{n} ({label}): reopen failed: {e}"), replay);
                rm_db(&cut_db);
                continue;
            }
            Err(_) => {
                out.violation(format!("{prop}|reopen-panicked|{sig_tail}"), format!("{t:?} killed at tick {k}/{n} ({label}): reopen panicked"), replay);
                rm_db(&cut_db);
                continue;
            }
        };
        let mut c2 = Client::new(pr.w.clients.len(), BackendKind::Memory, cfg.clone(), dir, "unused", rng);
        c2.keys = keys.clone();
        c2.backend = BackendKind::Sqlite;
        c2.db_path = Some(cut_db.clone());
        c2.mdk = AnyMdk::Sql(MDK::builder(storage).with_config(cfg.clone()).with_callback(c2.cb.clone()).build());
        c2.reached = pr.w.clients[pr.s].reached.clone();
        let tix = pr.w.clients.len();
        pr.w.clients.push(c2);
        pr.w.groups[pr.g].invited.insert(tix);
        let mut verdict: Option<(String, String)> = None;
        let expect_group = t != Template::Welcome;
        if let Err(e) = loads_ok(&pr.w.clients[tix], &gid, expect_group) {
            verdict = Some(("group-does-not-load".into(), e));
        }
        if verdict.is_none() {
            match t {
                Template::AppMessage | Template::Proposal | Template::Commit | Template::CommitWithRollback => {
                    for idx in pr.events.clone().into_iter().chain(pr.later.clone()) {
                        let d = pr.w.deliver(tix, idx, OwnMode::Echo);
                        if let Some(p) = d.panicked {
                            verdict = Some(("panic-after-reopen".into(), p));
                            break;
                        }
                    }
                    if verdict.is_none() {
                        let fp = pr.w.clients[tix].fp(&gid);
                        if fp != pr.twin_fp {
                            let parts = pr.twin_fp.diff(&fp);
                            verdict = Some((format!("differs-from-uninterrupted-run|parts={}", parts.join("+")), format!("{}: twin `{}` vs crashed `{}`", parts[0], crate::util::short(pr.twin_fp.part(parts[0]), 300), crate::util::short(fp.part(parts[0]), 300))));
                        }
                    }
                }
                Template::Welcome => {
                    // redo: process the welcome again (same wrapper id) and accept
                    let wid = EventId::from_hex(&pr.mode[1]).unwrap();
                    let rumor = UnsignedEvent::from_json(std::fs::read_to_string(&pr.mode[2]).unwrap()).unwrap();
                    let r = with_mdk!(pr.w.clients[tix].mdk, x => x.process_welcome(&wid, &rumor));
                    match r {
                        Ok(wl) => {
                            // the interrupted call is repeated unless it demonstrably completed (welcome
                            // Accepted AND group Active): an application whose accept_welcome never returned
                            // calls it again
                            let active = pr.w.clients[tix].group_state(&wl.mls_group_id) == Some(group_types::GroupState::Active);
                            if wl.state != welcome_types::WelcomeState::Accepted || !active {
                                if wl.state == welcome_types::WelcomeState::Accepted {
                                    NOTE_REACCEPT.fetch_add(1, std::sync::atomic::Ordering::Relaxed);
                                }
                                if let Err(e) = with_mdk!(pr.w.clients[tix].mdk, x => x.accept_welcome(&wl)) {
                                    verdict = Some(("welcome-cannot-be-accepted-after-crash".into(), format!("accept_welcome: {e}")));
                                }
                            }
                        }
                        Err(e) => verdict = Some(("welcome-cannot-be-processed-after-crash".into(), format!("process_welcome: {e}"))),
                    }
                    if verdict.is_none() {
                        if let Some(st) = pr.w.clients[tix].state(pr.g, &gid) {
                            pr.w.clients[tix].reached.insert(st);
                        }
                        for idx in pr.later.clone() {
                            pr.w.deliver(tix, idx, OwnMode::Echo);
                        }
                        let fp = pr.w.clients[tix].fp(&gid);
                        if fp != pr.twin_fp {
                            let parts = pr.twin_fp.diff(&fp);
                            verdict = Some((format!("differs-from-uninterrupted-run|parts={}", parts.join("+")), format!("{}: twin `{}` vs crashed `{}`", parts[0], crate::util::short(pr.twin_fp.part(parts[0]), 300), crate::util::short(fp.part(parts[0]), 300))));
                        }
                    }
                }
                Template::CreateGroup => {
                    let pubf = format!("{}.published", cut_db.display());
                    let _ = std::fs::remove_file(&pubf);
                    // redo the operation (whatever the interrupted attempt left behind must not be in the way)
                    let kps: Vec<Event> = std::fs::read_to_string(&pr.mode[1]).unwrap_or_default().lines().filter(|l| !l.trim().is_empty()).filter_map(|l| Event::from_json(l).ok()).collect();
                    let spk = keys.public_key();
                    mdk_core::verif::set_created_at(Some(pr.w.t + 10));
                    let redo = with_mdk!(pr.w.clients[tix].mdk, x => x.create_group(&spk, kps.clone(), new_group_config(spk)));
                    match redo {
                        Err(e) => verdict = Some(("operation-cannot-be-redone".into(), format!("create_group after the crash: {e}"))),
                        Ok(res) => {
                            let ngid = res.group.mls_group_id.clone();
                            if let Err(e) = loads_ok(&pr.w.clients[tix], &ngid, true) {
                                verdict = Some(("group-does-not-load".into(), format!("after redoing create_group: {e}")));
                            }
                            // a fresh copy of the peer joins through its welcome and the two talk
                            let p_db = pr.pre_p.with_file_name(format!("peer-{k}.db"));
                            copy_db(&pr.pre_p, &p_db);
                            let pst = MdkSqliteStorage::new_unencrypted(&p_db).expect("peer copy");
                            let peer = MDK::builder(pst).with_config(cfg.clone()).build();
                            let mut joined = false;
                            for (wi, rumor) in res.welcome_rumors.iter().enumerate() {
                                let wid = EventId::from_byte_array(Rng::new((k * 131 + wi) as u64).bytes::<32>());
                                if let Ok(wl) = peer.process_welcome(&wid, rumor) {
                                    joined = peer.accept_welcome(&wl).is_ok();
                                    if joined {
                                        break;
                                    }
                                }
                            }
                            if verdict.is_none() && !joined {
                                verdict = Some(("peer-cannot-join-the-recreated-group".into(), "no welcome of the redone create_group could be processed and accepted by the peer".into()));
                            }
                            if verdict.is_none() {
                                let sk = pr.w.clients[tix].state(pr.g, &ngid);
                                let pk = crate::sim::fp::state_key(&peer, pr.g, &ngid);
                                if sk.as_ref().map(|x| (x.1, x.2.clone())) != pk.as_ref().map(|x| (x.1, x.2.clone())) {
                                    verdict = Some(("subject-and-peer-do-not-reconverge|new-group".into(), format!("subject {:?} vs peer {:?}", sk.map(|x| (x.1, x.2[..6].to_string())), pk.map(|x| (x.1, x.2[..6].to_string())))));
                                } else {
                                    let mut rumor: UnsignedEvent = EventBuilder::new(Kind::Custom(9), format!("hello-new-group-{i}-{k}")).custom_created_at(Timestamp::from(pr.w.base_ts + 700)).build(spk);
                                    rumor.ensure_id();
                                    match with_mdk!(pr.w.clients[tix].mdk, x => x.create_message(&ngid, rumor)) {
                                        Ok(ev) => {
                                            let r = peer.process_message(&ev);
                                            if !matches!(r, Ok(MessageProcessingResult::ApplicationMessage(_))) {
                                                verdict = Some(("peer-cannot-read-subject-in-recreated-group".into(), result_class(&r)));
                                            }
                                        }
                                        Err(e) => verdict = Some(("subject-cannot-send-in-recreated-group".into(), e.to_string())),
                                    }
                                }
                            }
                            drop(peer);
                            rm_db(&p_db);
                        }
                    }
                    // the old group is untouched: later events of its peers still process to the twin's state
                    if verdict.is_none() {
                        for idx in pr.later.clone() {
                            pr.w.deliver(tix, idx, OwnMode::Echo);
                        }
                        let fp = pr.w.clients[tix].fp(&gid);
                        if fp != pr.twin_fp {
                            let parts = pr.twin_fp.diff(&fp);
                            verdict = Some((format!("old-group-differs-from-uninterrupted-run|parts={}", parts.join("+")), format!("{}: twin `{}` vs crashed `{}`", parts[0], crate::util::short(pr.twin_fp.part(parts[0]), 300), crate::util::short(fp.part(parts[0]), 300))));
                        }
                    }
                }
                Template::CreateMessage | Template::SelfUpdateMerge => {
                    // what reached the relay before the crash?
                    let pubf = format!("{}.published", cut_db.display());
                    let published: Option<Event> = std::fs::read_to_string(&pubf).ok().and_then(|j| Event::from_json(j).ok());
                    let _ = std::fs::remove_file(&pubf);
                    let p_db = pr.pre_p.with_file_name(format!("peer-{k}.db"));
                    copy_db(&pr.pre_p, &p_db);
                    let pst = MdkSqliteStorage::new_unencrypted(&p_db).expect("peer copy");
                    let peer = MDK::builder(pst).with_config(cfg.clone()).build();
                    let has_pending = |w: &World| with_mdk!(w.clients[tix].mdk, x => x.load_mls_group(&gid).ok().flatten().map(|g| g.pending_commit().is_some()).unwrap_or(false));
                    mdk_core::verif::set_created_at(Some(pr.w.t + 10));
                    let mut to_peer: Vec<Event> = vec![];
                    match (&published, t) {
                        (Some(ev), Template::SelfUpdateMerge) => {
                            out.count("own_commit_published_before_crash");
                            to_peer.push(ev.clone());
                            // recovery: finish the merge if the pending commit is still there
                            if has_pending(&pr.w) {
                                out.count("pending_commit_survived_crash");
                                if let Err(e) = with_mdk!(pr.w.clients[tix].mdk, x => x.merge_pending_commit(&gid)) {
                                    verdict = Some(("pending-commit-cannot-be-merged-after-crash".into(), e.to_string()));
                                }
                            }
                        }
                        (Some(ev), _) => {
                            to_peer.push(ev.clone());
                        }
                        (None, _) => {
                            // nothing was published: drop whatever is half-done and redo
                            if has_pending(&pr.w) {
                                out.count("pending_commit_survived_crash");
                                let _ = with_mdk!(pr.w.clients[tix].mdk, x => x.clear_pending_commit(&gid));
                            }
                            let redo: Result<Event, String> = if t == Template::CreateMessage {
                                let mut rumor: UnsignedEvent = EventBuilder::new(Kind::Custom(9), format!("redo-body-{i}-{k}")).custom_created_at(Timestamp::from(pr.w.base_ts + 600)).build(keys.public_key());
                                rumor.ensure_id();
                                with_mdk!(pr.w.clients[tix].mdk, x => x.create_message(&gid, rumor)).map_err(|e| e.to_string())
                            } else {
                                with_mdk!(pr.w.clients[tix].mdk, x => x.self_update(&gid).and_then(|u| x.merge_pending_commit(&gid).map(|_| u.evolution_event))).map_err(|e| e.to_string())
                            };
                            match redo {
                                Ok(ev) => to_peer.push(ev),
                                Err(e) => verdict = Some(("operation-cannot-be-redone".into(), e)),
                            }
                        }
                    }
                    if verdict.is_none() {
                        for ev in &to_peer {
                            let r = peer.process_message(ev);
                            if !matches!(r, Ok(MessageProcessingResult::ApplicationMessage(_)) | Ok(MessageProcessingResult::Commit { .. })) {
                                verdict = Some(("peer-cannot-process-what-was-published".into(), format!("peer answered {}", result_class(&r))));
                            }
                        }
                    }
                    if verdict.is_none() {
                        // the group re-converges: same epoch + authenticator, record mirrors MLS, and
                        // the subject can read what the peer sends next
                        let sk = pr.w.clients[tix].state(pr.g, &gid);
                        let pk = crate::sim::fp::state_key(&peer, pr.g, &gid);
                        if sk != pk {
                            let pred = if published.is_some() && t == Template::SelfUpdateMerge { "merge-interrupted-after-publish" } else { "other" };
                            verdict = Some((format!("subject-and-peer-do-not-reconverge|{pred}"), format!("subject {:?} vs peer {:?}", sk.map(|x| (x.1, x.2[..6].to_string())), pk.map(|x| (x.1, x.2[..6].to_string())))));
                        } else {
                            let fp = pr.w.clients[tix].fp(&gid);
                            let ep = sk.as_ref().map(|x| x.1).unwrap_or(0);
                            if !fp.rec.starts_with(&format!("epoch={ep} ")) {
                                verdict = Some(("record-epoch-differs-from-mls".into(), fp.rec.clone()));
                            }
                            let mut rumor: UnsignedEvent = EventBuilder::new(Kind::Custom(9), format!("peer-after-{i}-{k}")).custom_created_at(Timestamp::from(pr.w.base_ts + 700)).build(pr.w.clients[pr.p].pk());
                            rumor.ensure_id();
                            if let Ok(ev) = peer.create_message(&gid, rumor) {
                                let r = with_mdk!(pr.w.clients[tix].mdk, x => x.process_message(&ev));
                                if verdict.is_none() && !matches!(r, Ok(MessageProcessingResult::ApplicationMessage(_))) {
                                    verdict = Some(("subject-cannot-read-peer-after-recovery".into(), result_class(&r)));
                                }
                            }
                        }
                    }
                    drop(peer);
                    rm_db(&p_db);
                }
            }
        }
        let wide = with_mdk!(pr.w.clients[tix].mdk, x => crate::sim::fp::client_wide(x));
        if verdict.is_none() && matches!(t, Template::AppMessage | Template::Proposal | Template::Commit | Template::CommitWithRollback | Template::Welcome) && wide != pr.twin_wide {
            verdict = Some(("group-list-differs-from-uninterrupted-run".into(), format!("`{}` vs `{wide}`", pr.twin_wide)));
        }
        if let Some((clause, detail)) = verdict {
            // predicate from the tick history: was the sender-ratchet state of the interrupted
            // event already persisted (OpenMLS writes the advanced message secrets right after
            // decrypting, long before the event's effects and its dedup record are stored)?
            let ratchet_at = pr.labels.iter().position(|l| short_label(l) == "write_message_secrets").map(|p| p + 1);
            let receiver = matches!(t, Template::AppMessage | Template::Proposal | Template::Commit | Template::CommitWithRollback);
            // phase = what had already been written when the process died (class of the last
            // write tick before the cut)
            let last_write = pr.labels[..k - 1].iter().rev().map(|l| short_label(l)).find(|l| is_write_label(l));
            let phase = match &last_write {
                None => "nothing-written-yet",
                Some(l) => phase_of(l),
            };
            let clause_head = clause.split('|').next().unwrap_or("").to_string();
            let sig = if receiver && clause.starts_with("differs-from-uninterrupted-run") && ratchet_at.map(|r| k > r).unwrap_or(false) {
                format!("{prop}|interrupted-event-lost|op={t:?}|ratchet-advance-persisted-before-crash|phase={phase}")
            } else {
                format!("{prop}|{clause_head}|op={t:?}|phase={phase}")
            };
            let _ = &sig_tail;
            out.violation(sig, format!("{t:?} killed at tick {k}/{n} (before `{label}`): {detail}"), replay);
        }
        let c2 = pr.w.clients.pop().unwrap();
        pr.w.groups[pr.g].invited.remove(&tix);
        drop(c2);
        rm_db(&cut_db);
    }
    if i < 3 {
        out.sample(json!({"template": format!("{t:?}"), "ticks": n, "labels": pr.labels.iter().map(|l| short_label(l)).collect::<Vec<_>>()}), 3);
    }
    rm_db(&pr.pre_s);
    rm_db(&pr.pre_p);
    pr.w.cleanup();
    let _ = BTreeSet::<u8>::new();
}

/// In-process faults inside the two explicit transactions (snapshot creation, restore):
/// an injected storage error must roll the transaction back completely, and a panic that unwinds
/// through the library must leave the file recoverable (re-open => state before the call).
pub fn in_process_txn_faults(prop: &str, i: u64, rng: &mut Rng, out: &mut Outcome, dir: &Path) {
    use mdk_storage_traits::MdkStorageProvider;
    use openmls_traits::OpenMlsProvider;
    if i % 5 == 4 {
        relay_replacement_fault(prop, i, rng, out, dir);
        return;
    }
    let which_restore = i % 2 == 1;
    let panic_variant = (i / 2) % 2 == 1;
    let sub = dir.join(format!("txn-{i}"));
    let _ = std::fs::create_dir_all(&sub);
    let mut w = World::empty(sub.clone(), format!("c12t-{i}"));
    let cfg = MdkConfig::default();
    let a = w.add_client(BackendKind::Memory, cfg.clone(), rng);
    let p = w.add_client(BackendKind::Memory, cfg.clone(), rng);
    let s = w.add_client(BackendKind::Sqlite, cfg.clone(), rng);
    let g = w.create_group(&[a, p, s], &[a], None, "txn");
    let gid = w.gid(g);
    w.t += 2;
    let ts = w.base_ts + w.msg_counter;
    if let Some(m) = w.act_message(a, g, ts) {
        w.deliver(s, m, OwnMode::Echo);
    }
    w.t += 2;
    let t0 = w.t;
    let Some(ca) = w.act_commit(a, g, &CommitKind::Rename, t0, OwnMode::Echo, 5, rng) else { return };
    let Some(cb) = w.act_commit(p, g, &CommitKind::SelfUpdate, t0 + 1, OwnMode::Echo, 0, rng) else { return };
    // fallible labels in order of appearance (pilot on a throw-away twin is not needed: the set is fixed)
    let snap_labels = ["snapshot_group_state::after_group_data", "snapshot_group_state::after_proposals", "snapshot_group_state::after_own_leaf_nodes", "snapshot_group_state::after_epoch_key_pairs", "snapshot_group_state::after_groups", "snapshot_group_state::after_relays", "snapshot_group_state::before_commit"];
    let rest_labels = ["restore_group_from_snapshot::after_begin", "restore_group_from_snapshot::after_openmls_deletes", "restore_group_from_snapshot::after_mdk_deletes", "restore_group_from_snapshot::restore_row", "restore_group_from_snapshot::after_restore_rows", "restore_group_from_snapshot::after_consume", "restore_group_from_snapshot::before_commit"];
    let (target_event, label): (usize, &'static str) = if which_restore {
        w.deliver(s, cb, OwnMode::Echo);
        (ca, rest_labels[rng.below(rest_labels.len())])
    } else {
        (cb, snap_labels[rng.below(snap_labels.len())])
    };
    let nth = if label.ends_with("restore_row") { 1 + rng.below(12) as u64 } else { 1 };
    out.evaluations += 1;
    out.count("in_process_txn_faults");
    out.note("txn_fault_points", format!("{}:{}", if panic_variant { "panic" } else { "error" }, label));
    out.distinct.insert(crate::rng::fnv(format!("{label}|{nth}|{panic_variant}").as_bytes()));
    let before_fp = w.clients[s].fp(&gid);
    let snaps_before = with_mdk!(w.clients[s].mdk, x => x.provider.storage().list_group_snapshots(&gid).unwrap_or_default().into_iter().map(|x| x.0).collect::<Vec<_>>());
    let seen = Arc::new(AtomicU64::new(0));
    let seen2 = seen.clone();
    set_thread_tick_hook(Some(Arc::new(move |l| {
        if l == label {
            let n = seen2.fetch_add(1, Ordering::SeqCst) + 1;
            if n == nth {
                if panic_variant {
                    panic!("verif: injected panic at {l}");
                }
                return TickAction::Fail;
            }
        }
        TickAction::Continue
    })));
    let ev = w.log[target_event].ev.clone();
    let r = std::panic::catch_unwind(std::panic::AssertUnwindSafe(|| with_mdk!(w.clients[s].mdk, x => x.process_message(&ev))));
    set_thread_tick_hook(None);
    let fired = seen.load(Ordering::SeqCst) >= nth;
    if !fired {
        out.count("txn_fault_point_not_reached");
        w.cleanup();
        return;
    }
    let replay = json!({"kind": "txn-fault", "label": label, "nth": nth, "panic": panic_variant});
    let sig_tail = format!("txn={}|{}", if which_restore { "restore" } else { "snapshot" }, if panic_variant { "panic" } else { "injected-error" });
    if panic_variant {
        if r.is_ok() {
            out.violation(format!("{prop}|injected-panic-swallowed|{sig_tail}"), format!("a panic inside {label} did not propagate"), replay);
            w.cleanup();
            return;
        }
        // the connection mutex is poisoned now; the process would have to restart: re-open
        w.clients[s].restart();
    } else if let Ok(Ok(res)) = &r {
        // an injected storage failure inside the transaction must not be reported as success
        if matches!(res, MessageProcessingResult::Commit { .. }) {
            out.violation(format!("{prop}|failed-transaction-reported-as-success|{sig_tail}"), format!("process_message returned Commit although {label} failed"), replay);
            w.cleanup();
            return;
        }
    }
    // all-or-nothing: the group is exactly what it was, and so is the set of snapshots
    let after_fp = w.clients[s].fp(&gid);
    let snaps_after = with_mdk!(w.clients[s].mdk, x => x.provider.storage().list_group_snapshots(&gid).unwrap_or_default().into_iter().map(|x| x.0).collect::<Vec<_>>());
    if after_fp != before_fp {
        let parts = before_fp.diff(&after_fp);
        out.violation(format!("{prop}|transaction-half-applied|{sig_tail}|parts={}", parts.join("+")), format!("fault at {label} (#{nth}): group changed in {:?}: `{}` -> `{}`", parts, crate::util::short(before_fp.part(parts[0]), 200), crate::util::short(after_fp.part(parts[0]), 200)), replay);
        w.cleanup();
        return;
    }
    if snaps_after != snaps_before {
        out.violation(format!("{prop}|snapshot-set-changed-by-failed-transaction|{sig_tail}"), format!("fault at {label}: snapshots {:?} -> {:?}", snaps_before.len(), snaps_after.len()), replay);
        w.cleanup();
        return;
    }
    // and the group still works on its current branch
    let author = if which_restore { p } else { a };
    let cur = w.clients[s].state(g, &gid);
    if which_restore {
        w.deliver(p, cb, OwnMode::Echo);
        let ts = w.base_ts + w.msg_counter + 50;
        if let Some(m) = w.act_message(author, g, ts) {
            let d = w.deliver(s, m, OwnMode::Echo);
            if d.class != "ApplicationMessage" {
                out.violation(format!("{prop}|group-unusable-after-failed-transaction|{sig_tail}"), format!("after the failed restore the subject answers a message of its current branch with {}", d.class), replay);
            }
        }
    }
    let _ = cur;
    w.cleanup();
}

/// Relay replacement is all-or-nothing: a failure (or panic) between the DELETE and the INSERTs
/// inside the savepoint leaves the old set.
fn relay_replacement_fault(prop: &str, i: u64, rng: &mut Rng, out: &mut Outcome, dir: &Path) {
    use mdk_storage_traits::groups::GroupStorage;
    use openmls_traits::OpenMlsProvider;
    let panic_variant = (i / 5) % 2 == 1;
    let sub = dir.join(format!("relay-{i}"));
    let _ = std::fs::create_dir_all(&sub);
    let mut w = World::empty(sub.clone(), format!("c12r-{i}"));
    let cfg = MdkConfig::default();
    let a = w.add_client(BackendKind::Memory, cfg.clone(), rng);
    let s = w.add_client(BackendKind::Sqlite, cfg.clone(), rng);
    let g = w.create_group(&[a, s], &[a], None, "relays");
    let gid = w.gid(g);
    out.evaluations += 1;
    out.count("in_process_txn_faults");
    out.note("txn_fault_points", format!("{}:replace_group_relays::after_delete", if panic_variant { "panic" } else { "error" }));
    out.distinct.insert(crate::rng::fnv(format!("relays|{panic_variant}").as_bytes()));
    let before = w.clients[s].fp(&gid).rel;
    set_thread_tick_hook(Some(Arc::new(move |l| {
        if l == "replace_group_relays::after_delete" {
            if panic_variant {
                panic!("verif: injected panic at {l}");
            }
            return TickAction::Fail;
        }
        TickAction::Continue
    })));
    // through a real commit that changes the relay set
    w.t += 2;
    let t0 = w.t;
    let c = w.act_commit(a, g, &CommitKind::Relays, t0, OwnMode::Immediate, rng.next() % 1000, rng);
    let r = match c {
        Some(c) => {
            let ev = w.log[c].ev.clone();
            Some(std::panic::catch_unwind(std::panic::AssertUnwindSafe(|| with_mdk!(w.clients[s].mdk, x => x.process_message(&ev)))))
        }
        None => None,
    };
    // and directly at the storage trait
    let direct = std::panic::catch_unwind(std::panic::AssertUnwindSafe(|| with_mdk!(w.clients[s].mdk, x => x.provider.storage().replace_group_relays(&gid, [relay(4)].into_iter().collect()))));
    set_thread_tick_hook(None);
    if panic_variant {
        w.clients[s].restart();
    }
    let after = w.clients[s].fp(&gid).rel;
    let sig_tail = format!("txn=relay-replacement|{}", if panic_variant { "panic" } else { "injected-error" });
    if after != before {
        out.violation(format!("{prop}|transaction-half-applied|{sig_tail}|parts=REL"), format!("relay replacement failed half-way but the relay set changed: `{before}` -> `{after}`"), json!({"kind": "txn-fault", "label": "replace_group_relays::after_delete"}));
    }
    if !panic_variant && matches!(direct, Ok(Ok(()))) {
        out.violation(format!("{prop}|failed-transaction-reported-as-success|{sig_tail}"), "replace_group_relays returned Ok although it failed half-way".to_string(), json!({"kind": "txn-fault"}));
    }
    let _ = r;
    w.cleanup();
}

pub fn run(ctx: &Ctx) -> i32 {
    let dir = ctx.scratch_dir("c12");
    let thorough = ctx.tier == crate::report::Tier::Thorough;
    let reps = ctx.budget(8, 32) as u64;
    let n = TEMPLATES.len() as u64 * reps;
    let max_cuts = if thorough { 400 } else { 200 };
    let out = crate::par::run(ctx, n, Duration::from_secs(ctx.tier.pick(100, 1500)), |i, rng, out| {
        let t = TEMPLATES[(i % TEMPLATES.len() as u64) as usize];
        run_case(&ctx.prop, t, i, rng, out, &dir, true, max_cuts)
    });
    let mut out = out;
    let n2 = ctx.budget(600, 6000) as u64;
    let ctx2 = Ctx { prop: "C12-txn".into(), ..ctx.clone() };
    let o2 = crate::par::run(&ctx2, n2, Duration::from_secs(ctx.tier.pick(60, 600)), |i, rng, out| in_process_txn_faults(&ctx.prop, i, rng, out, &dir));
    out.merge(o2);
    let _ = std::fs::remove_dir_all(&dir);
    let floors = vec![
        Floor { what: "in-process transaction faults", have: out.get("in_process_txn_faults"), need: 100 },
        Floor { what: "distinct transaction fault points", have: out.sets.get("txn_fault_points").map(|s| s.len()).unwrap_or(0) as u64, need: 26 },
        Floor { what: "cuts executed", have: out.get("cuts"), need: ctx.tier.pick(100, 1500) },
        Floor { what: "templates", have: out.sets.get("templates").map(|s| s.len()).unwrap_or(0) as u64, need: 8 },
        Floor { what: "distinct tick labels cut at", have: out.sets.get("cut_labels").map(|s| s.len()).unwrap_or(0) as u64, need: 40 },
    ];
    finish(
        ctx,
        "fault_enumeration",
        "for 8 operation templates (process_message of an application message / a leave proposal / a commit / a better commit that forces a rollback; process_welcome + accept_welcome; create_message; self_update + merge_pending_commit; create_group of a second group) a pilot run records every storage tick (H2: one per SQL statement boundary, labelled with the trait method; extra labelled ticks inside the snapshot / restore transactions). For each selected tick k a child process re-opens a copy of the pre-operation database and is killed with abort() at tick k; the parent re-opens the file (must open, every group must load), re-delivers the interrupted event and all later events and compares the fingerprint with the uninterrupted twin (receiver operations), or redoes the operation and lets a fresh copy of a peer process the result (own operations). Every tick of every template instance is cut (quick: 4 instances per template, thorough: 16, with varying commit kinds). In addition, inside the two explicit transactions (snapshot creation, restore) an in-process hook injects a storage error or a panic at each labelled point: the transaction must roll back completely (group fingerprint and snapshot set unchanged, group still usable). distinct = distinct (template, label, k) / (fault point, variant)",
        out,
        floors,
        vec![
            "process death is simulated with abort() at statement boundaries (the statement at the cut is not executed); power loss / torn pages are out of scope (SQLite's own journal is trusted)".into(),
            "own operations are judged by recoverability and by a peer being able to follow, not by twin equality (the redone operation produces different key material)".into(),
        ],
        json!({"exhaustive_within_templates": true}),
    )
}
