//! C13 - encrypted databases leak nothing at rest and only open with their key; files are
//! owner-only; a keyring-managed key is created once and reused, also under concurrent first opens.

use std::collections::BTreeSet;
use std::os::unix::fs::PermissionsExt;
use std::path::{Path, PathBuf};
use std::sync::Arc;
use std::sync::atomic::{AtomicU64, Ordering};

use mdk_core::MdkConfig;
use mdk_core::prelude::*;
use mdk_sqlite_storage::verif::{TickAction, set_thread_tick_hook};
use mdk_sqlite_storage::{EncryptionConfig, MdkSqliteStorage};
use mdk_storage_traits::groups::GroupStorage;
use serde_json::json;

use crate::report::{Ctx, Floor, Outcome, finish};
use crate::rng::Rng;
use crate::sim::adversary as adv;
use crate::sim::scenario::*;
use crate::sim::*;
use crate::with_mdk;

#[derive(Clone, Default)]
pub struct Registry {
    /// (class, raw bytes)
    pub items: Vec<(String, Vec<u8>)>,
}

impl Registry {
    pub fn add(&mut self, class: &str, bytes: &[u8]) {
        if bytes.len() >= 8 && !self.items.iter().any(|(_, b)| b == bytes) {
            self.items.push((class.to_string(), bytes.to_vec()));
        }
    }
    pub fn add_text(&mut self, class: &str, s: &str) {
        self.add(class, s.as_bytes());
    }
    /// every needle form of every item: raw, lower hex, upper hex
    pub fn needles(&self) -> Vec<(String, Vec<u8>)> {
        let mut v = vec![];
        for (c, b) in &self.items {
            v.push((format!("{c}:raw"), b.clone()));
            if !c.starts_with("text") {
                v.push((format!("{c}:hex"), hex::encode(b).into_bytes()));
                v.push((format!("{c}:HEX"), hex::encode_upper(b).into_bytes()));
            }
        }
        v
    }
}

fn find(hay: &[u8], needle: &[u8]) -> bool {
    if needle.is_empty() || hay.len() < needle.len() {
        return false;
    }
    let first = needle[0];
    let mut i = 0;
    while i + needle.len() <= hay.len() {
        match hay[i..=hay.len() - needle.len()].iter().position(|b| *b == first) {
            None => return false,
            Some(p) => {
                i += p;
                if &hay[i..i + needle.len()] == needle {
                    return true;
                }
                i += 1;
            }
        }
    }
    false
}

/// Scan every regular file under the given directories; returns (file, needle class) hits.
pub fn scan_dirs(dirs: &[&Path], needles: &[(String, Vec<u8>)], files_scanned: &mut u64, bytes_scanned: &mut u64) -> Vec<(String, String)> {
    let mut hits = vec![];
    for d in dirs {
        let Ok(rd) = std::fs::read_dir(d) else { continue };
        for e in rd.flatten() {
            let p = e.path();
            if !p.is_file() {
                continue;
            }
            let Ok(data) = std::fs::read(&p) else { continue };
            *files_scanned += 1;
            *bytes_scanned += data.len() as u64;
            for (class, n) in needles {
                if find(&data, n) {
                    let suffix = p.file_name().unwrap().to_string_lossy().rsplit('.').next().unwrap_or("").to_string();
                    hits.push((suffix, class.clone()));
                }
            }
        }
    }
    hits
}

/// One history on a client whose storage is `backend` (SqlCipher = subject, Sqlite = positive control).
fn leak_history(prop: &str, i: u64, rng: &mut Rng, out: &mut Outcome, dir: &Path, control: bool) {
    let sub = dir.join(format!("{}{i}", if control { "ctl" } else { "enc" }));
    let _ = std::fs::create_dir_all(&sub);
    let tmpd = sub.join("sqlite-tmp");
    let _ = std::fs::create_dir_all(&tmpd);
    let mut w = World::empty(sub.clone(), format!("c13-{i}"));
    let cfg = MdkConfig::default();
    let backend = if control { BackendKind::Sqlite } else { BackendKind::SqlCipher };
    let a = w.add_client(BackendKind::Memory, cfg.clone(), rng);
    let s = w.add_client(backend, cfg.clone(), rng);
    let p = w.add_client(BackendKind::Memory, cfg.clone(), rng);
    let tagr = rng.next();
    let name = format!("CANARY-NAME-{tagr:016x}");
    let g = w.create_group(&[a, s, p], &[a], None, &name);
    let gid = w.gid(g);
    let mut reg = Registry::default();
    reg.add_text("text-group-name", &name);
    reg.add("mls-group-id", gid.as_slice());
    if let Some(k) = w.clients[s].db_key {
        reg.add("database-key", &k);
    }
    if !control {
        out.evaluations += 1;
    }
    let learn = |w: &World, reg: &mut Registry| {
        with_mdk!(w.clients[s].mdk, x => {
            if let Some(n) = adv::nostr_group_id(x, &gid) { reg.add("nostr-group-id", &n); }
            if let Some(e) = adv::current_epoch(x, &gid) {
                for ep in e.saturating_sub(6)..=e {
                    if let Some(sec) = adv::exporter_secret(x, &gid, ep) { reg.add("exporter-secret", &sec); }
                }
            }
            if let Ok(Some(gr)) = x.get_group(&gid) {
                if let Some(k) = gr.image_key { reg.add("image-key", &*k); }
                if let Some(n) = gr.image_nonce { reg.add("image-nonce", &*n); }
            }
        });
    };
    let files_scanned = Arc::new(AtomicU64::new(0));
    let mut total_files = 0u64;
    let mut total_bytes = 0u64;
    let mut hits_all: BTreeSet<(String, String)> = BTreeSet::new();
    let mut scan_points = 0u64;
    let mut in_txn_scans = 0u64;
    let steps = rng.range(12, 24);
    for step in 0..steps {
        w.t += 2;
        let r = rng.below(100);
        if r < 40 {
            // a message with a canary body, sometimes large (overflow pages)
            let m = if rng.chance(50) { s } else { *rng.pick(&[a, p]) };
            let big = rng.chance(25);
            let canary = format!("CANARY-MSG-{:016x}-{step}", rng.next());
            reg.add_text("text-message-body", &canary);
            let body = if big { format!("{canary}{}", "x".repeat(20_000 + rng.below(30_000))) } else { canary.clone() };
            let gidc = gid.clone();
            let at = w.clients[m].state(g, &gid).unwrap();
            let mut rumor = nostr::EventBuilder::new(nostr::Kind::Custom(9), body).custom_created_at(nostr::Timestamp::from(w.base_ts + step as u64)).build(w.clients[m].pk());
            rumor.ensure_id();
            mdk_core::verif::set_created_at(Some(w.t));
            if let Ok(ev) = with_mdk!(w.clients[m].mdk, x => x.create_message(&gidc, rumor.clone())) {
                let idx = w.log.len();
                w.log.push(Pub { ev, kind: PubKind::App, author: m, g, at, refs: vec![], what: canary, rumor: Some(rumor), mode: OwnMode::Echo, welcomes: vec![], adversarial: false });
                for c in [a, s, p] {
                    if c != m {
                        w.deliver(c, idx, OwnMode::Echo);
                    }
                }
            }
        } else if r < 75 {
            // commits by the admin: group data canaries, images, id rotation; the subject processes them
            let kind = rng.pick(&[CommitKind::Describe, CommitKind::Image, CommitKind::RotateNid, CommitKind::Relays, CommitKind::SelfUpdate]).clone();
            let t0 = w.t;
            if let Some(c) = w.act_commit(a, g, &kind, t0, OwnMode::Immediate, rng.next() % 100_000, rng) {
                // scan INSIDE the snapshot transaction of the subject (hot journal present)
                let needles = reg.needles();
                let subp = sub.clone();
                let tmpp = tmpd.clone();
                let fs2 = files_scanned.clone();
                let hits_in: Arc<std::sync::Mutex<Vec<(String, String)>>> = Arc::new(std::sync::Mutex::new(vec![]));
                let h2 = hits_in.clone();
                if !control {
                    set_thread_tick_hook(Some(Arc::new(move |l| {
                        if l.starts_with("snapshot_group_state::") || l.starts_with("restore_group_from_snapshot::") {
                            let mut f = 0u64;
                            let mut b = 0u64;
                            let hs = scan_dirs(&[&subp, &tmpp], &needles, &mut f, &mut b);
                            fs2.fetch_add(f, Ordering::SeqCst);
                            h2.lock().unwrap().extend(hs);
                        }
                        TickAction::Continue
                    })));
                }
                w.deliver(s, c, OwnMode::Echo);
                set_thread_tick_hook(None);
                w.deliver(p, c, OwnMode::Echo);
                let hs = hits_in.lock().unwrap().clone();
                if !hs.is_empty() {
                    in_txn_scans += 1;
                }
                for h in hs {
                    hits_all.insert((format!("in-transaction:{}", h.0), h.1));
                }
                in_txn_scans += 1;
            }
        } else if r < 88 {
            // a race that the subject resolves by rollback
            let t0 = w.t;
            let ca = w.act_commit(a, g, &CommitKind::Rename, t0, OwnMode::Echo, rng.next() % 1000, rng);
            let cb = w.act_commit(p, g, &CommitKind::SelfUpdate, t0 + 1, OwnMode::Echo, 0, rng);
            if let (Some(ca), Some(cb)) = (ca, cb) {
                w.deliver(s, cb, OwnMode::Echo);
                w.deliver(s, ca, OwnMode::Echo);
                for c in [a, p] {
                    w.deliver(c, ca, OwnMode::Echo);
                    w.deliver(c, cb, OwnMode::Echo);
                }
            }
        } else {
            let t0 = w.t;
            if let Some(c) = w.act_commit(s, g, &CommitKind::SelfUpdate, t0, OwnMode::Immediate, 0, rng) {
                w.deliver(a, c, OwnMode::Echo);
                w.deliver(p, c, OwnMode::Echo);
            }
        }
        learn(&w, &mut reg);
        // scan point after the step
        let needles = reg.needles();
        let hs = scan_dirs(&[&sub, &tmpd], &needles, &mut total_files, &mut total_bytes);
        scan_points += 1;
        for h in hs {
            hits_all.insert(h);
        }
    }
    total_files += files_scanned.load(Ordering::SeqCst);
    // pragmas on the live connection (H3)
    if let AnyMdk::Sql(m) = &w.clients[s].mdk {
        use openmls_traits::OpenMlsProvider;
        let st = m.provider.storage();
        let cv = st.verif_pragma("cipher_version").unwrap_or_default();
        let ts = st.verif_pragma("temp_store").unwrap_or_default();
        let fk = st.verif_pragma("foreign_keys").unwrap_or_default();
        if !control {
            out.count("pragma_checks");
            out.note("pragmas", format!("cipher_version={} temp_store={ts} foreign_keys={fk}", if cv.is_empty() { "<empty>" } else { "set" }));
            if cv.is_empty() {
                out.violation(format!("{prop}|pragma|cipher_version-empty"), "encrypted connection reports no cipher_version (not SQLCipher?)", json!({}));
            }
            if ts != "2" {
                out.violation(format!("{prop}|pragma|temp_store-not-memory"), format!("temp_store = {ts} on an encrypted connection (temporary tables may spill to plaintext files)"), json!({}));
            }
            if fk != "1" {
                out.violation(format!("{prop}|pragma|foreign_keys-off"), format!("foreign_keys = {fk}"), json!({}));
            }
        }
    }
    // reopen with the right key => same data
    if !control {
        let before = w.clients[s].fp(&gid);
        w.clients[s].restart();
        let after = w.clients[s].fp(&gid);
        out.count("reopen_checks");
        if before != after {
            out.violation(format!("{prop}|reopen-with-right-key-differs|parts={}", before.diff(&after).join("+")), "data after re-opening with the right key differs", json!({}));
        }
        // file modes
        for e in std::fs::read_dir(&sub).into_iter().flatten().flatten() {
            let p = e.path();
            if p.is_file() && p.to_string_lossy().contains(".db") {
                let mode = std::fs::metadata(&p).map(|m| m.permissions().mode() & 0o777).unwrap_or(0);
                out.count("file_mode_checks");
                if mode & 0o077 != 0 {
                    out.violation(format!("{prop}|file-mode|{:o}", mode), format!("{} has mode {:o}", p.display(), mode), json!({}));
                }
            }
        }
    }
    out.add(if control { "control_files_scanned" } else { "files_scanned" }, total_files);
    out.add(if control { "control_bytes_scanned" } else { "bytes_scanned" }, total_bytes);
    out.add(if control { "control_scan_points" } else { "scan_points" }, scan_points);
    if !control {
        out.add("in_transaction_scans", in_txn_scans);
        out.add("secrets_registered", reg.items.len() as u64);
        for (c, _) in &reg.items {
            out.note("secret_classes", c.clone());
        }
        for (file, class) in &hits_all {
            out.violation(format!("{prop}|plaintext-at-rest|{}|file={file}", class), format!("canary of class {class} found in a `{file}` file of an encrypted database directory"), json!({"scenario": i}));
        }
        out.distinct.insert(crate::rng::fnv(format!("{i}-{}", w.log.len()).as_bytes()));
        if i < 2 {
            out.sample(json!({"scenario": i, "steps": steps, "events": w.log.len(), "secrets_registered": reg.items.len(), "scan_points": scan_points}), 3);
        }
    } else {
        // positive control: the same scanner must see every class on an unencrypted database
        for (_, class) in &hits_all {
            out.note("control_classes_found", class.split(':').next().unwrap_or("").to_string());
        }
    }
    w.cleanup();
    let _ = std::fs::remove_dir_all(&sub);
}

// --------------------------------------------------------------------------------------------
// constructor matrix
// --------------------------------------------------------------------------------------------

fn ensure_keyring() {
    static ONCE: std::sync::Once = std::sync::Once::new();
    ONCE.call_once(|| {
        keyring_core::set_default_store(keyring_core::mock::Store::new().expect("mock keyring store"));
    });
}

fn keyring_secret(service: &str, id: &str) -> Option<Vec<u8>> {
    keyring_core::Entry::new(service, id).ok()?.get_secret().ok()
}

fn write_probe(st: &MdkSqliteStorage, tag: u8) -> bool {
    use mdk_storage_traits::messages::MessageStorage;
    let pm = mdk_storage_traits::messages::types::ProcessedMessage {
        wrapper_event_id: nostr::EventId::from_byte_array([tag; 32]),
        message_event_id: None,
        processed_at: nostr::Timestamp::from(1_700_000_000),
        epoch: Some(1),
        mls_group_id: None,
        state: mdk_storage_traits::messages::types::ProcessedMessageState::Processed,
        failure_reason: None,
    };
    st.save_processed_message(pm).is_ok()
}
fn read_probe(st: &MdkSqliteStorage, tag: u8) -> bool {
    use mdk_storage_traits::messages::MessageStorage;
    matches!(st.find_processed_message_by_event_id(&nostr::EventId::from_byte_array([tag; 32])), Ok(Some(_)))
}

#[derive(Clone, Copy, Debug, PartialEq)]
enum FileState {
    Missing,
    Empty,
    Plain,
    EncK1,
    EncK2,
    Garbage,
    EncKeyring,
}
#[derive(Clone, Copy, Debug, PartialEq)]
enum Ctor {
    Keyring,
    KeyK1,
    Unencrypted,
}

pub fn matrix(prop: &str, i: u64, rng: &mut Rng, out: &mut Outcome, dir: &Path) {
    ensure_keyring();
    let sub = dir.join(format!("mx{i}"));
    let _ = std::fs::create_dir_all(&sub);
    let k1 = rng.bytes::<32>();
    let k2 = rng.bytes::<32>();
    let service = format!("verif-svc-{}-{i}", std::process::id());
    let states = [FileState::Missing, FileState::Empty, FileState::Plain, FileState::EncK1, FileState::EncK2, FileState::Garbage, FileState::EncKeyring];
    let ctors = [Ctor::Keyring, Ctor::KeyK1, Ctor::Unencrypted];
    for (si, fs) in states.iter().enumerate() {
        for (ci, ct) in ctors.iter().enumerate() {
            out.evaluations += 1;
            let path = sub.join(format!("m-{si}-{ci}.db"));
            let key_id = format!("key-{si}-{ci}");
            // prepare the file
            match fs {
                FileState::Missing => {}
                FileState::Empty => {
                    std::fs::write(&path, b"").unwrap();
                }
                FileState::Plain => {
                    let st = MdkSqliteStorage::new_unencrypted(&path).unwrap();
                    write_probe(&st, 7);
                }
                FileState::EncK1 => {
                    let st = MdkSqliteStorage::new_with_key(&path, EncryptionConfig::new(k1)).unwrap();
                    write_probe(&st, 7);
                }
                FileState::EncK2 => {
                    let st = MdkSqliteStorage::new_with_key(&path, EncryptionConfig::new(k2)).unwrap();
                    write_probe(&st, 7);
                }
                FileState::Garbage => {
                    std::fs::write(&path, rng.vec(8192)).unwrap();
                }
                FileState::EncKeyring => {
                    let st = MdkSqliteStorage::new(&path, &service, &key_id).unwrap();
                    write_probe(&st, 7);
                }
            }
            let had_keyring_key = keyring_secret(&service, &key_id);
            let r = std::panic::catch_unwind(|| match ct {
                Ctor::Keyring => MdkSqliteStorage::new(&path, &service, &key_id),
                Ctor::KeyK1 => MdkSqliteStorage::new_with_key(&path, EncryptionConfig::new(k1)),
                Ctor::Unencrypted => MdkSqliteStorage::new_unencrypted(&path),
            });
            let case = format!("{fs:?} x {ct:?}");
            out.count("matrix_cases");
            if let Ok(Err(e)) = &r {
                crate::capture::error("sqlite-constructor", e);
            }
            crate::capture::secret("database-key", &k1);
            crate::capture::secret("database-key", &k2);
            if let Some(k) = keyring_secret(&service, &key_id) {
                crate::capture::secret("database-key", &k);
            }
            let r = match r {
                Ok(r) => r,
                Err(_) => {
                    out.violation(format!("{prop}|constructor-panicked|{case}"), format!("{case} panicked"), json!({}));
                    continue;
                }
            };
            // expectation table (from the constructors' documentation)
            let expect_ok = match (fs, ct) {
                (FileState::Missing, _) => true,
                // an empty file is a new database for every constructor... except the keyring one,
                // which treats an existing file without keyring entry as foreign
                (FileState::Empty, Ctor::Keyring) => false,
                (FileState::Empty, _) => true,
                (FileState::Plain, Ctor::Unencrypted) => true,
                (FileState::Plain, _) => false,
                (FileState::EncK1, Ctor::KeyK1) => true,
                (FileState::EncK1, _) => false,
                (FileState::EncK2, _) => false,
                (FileState::Garbage, _) => false,
                (FileState::EncKeyring, Ctor::Keyring) => true,
                (FileState::EncKeyring, _) => false,
            };
            out.note("matrix_outcomes", format!("{case} -> {}", if r.is_ok() { "Ok" } else { "Err" }));
            // rows the property does not speak about (an empty or garbage file is neither a plain
            // nor an encrypted database) are recorded as information only
            if matches!(fs, FileState::Empty | FileState::Garbage) {
                out.count("matrix_cases_informational");
                for suf in ["", "-journal", "-wal", "-shm"] {
                    let _ = std::fs::remove_file(format!("{}{}", path.display(), suf));
                }
                continue;
            }
            match (&r, expect_ok) {
                (Ok(st), true) => {
                    // previously written data is still there, and new data can be written
                    if matches!(fs, FileState::Plain | FileState::EncK1 | FileState::EncKeyring) && !read_probe(st, 7) {
                        out.violation(format!("{prop}|data-lost-on-reopen|{case}"), format!("{case}: opened but the probe row is gone"), json!({}));
                    }
                    if !write_probe(st, 9) {
                        out.violation(format!("{prop}|cannot-write-after-open|{case}"), format!("{case}"), json!({}));
                    }
                }
                (Ok(st), false) => {
                    // opened although it must not: does it see the foreign data?
                    let sees = read_probe(st, 7);
                    out.violation(format!("{prop}|opened-with-wrong-key-or-mode|{case}"), format!("{case}: constructor returned Ok (foreign probe row visible: {sees})"), json!({}));
                }
                (Err(e), true) => {
                    out.violation(format!("{prop}|refused-right-key|{case}"), format!("{case}: {e}"), json!({}));
                }
                (Err(_), false) => {
                    // a refused open must not have damaged the file: the right constructor still works
                    let ok = match fs {
                        FileState::Plain => MdkSqliteStorage::new_unencrypted(&path).map(|s| read_probe(&s, 7)).unwrap_or(false),
                        FileState::EncK1 => MdkSqliteStorage::new_with_key(&path, EncryptionConfig::new(k1)).map(|s| read_probe(&s, 7)).unwrap_or(false),
                        FileState::EncK2 => MdkSqliteStorage::new_with_key(&path, EncryptionConfig::new(k2)).map(|s| read_probe(&s, 7)).unwrap_or(false),
                        FileState::EncKeyring => MdkSqliteStorage::new(&path, &service, &key_id).map(|s| read_probe(&s, 7)).unwrap_or(false),
                        _ => true,
                    };
                    if !ok {
                        out.violation(format!("{prop}|refused-open-damaged-database|{case}"), format!("{case}: after the refused open the right constructor no longer sees the data"), json!({}));
                    }
                }
            }
            // keyring: a key is created once and never replaced
            let now_key = keyring_secret(&service, &key_id);
            if let (Some(a), Some(b)) = (&had_keyring_key, &now_key) {
                if a != b {
                    out.violation(format!("{prop}|keyring-key-replaced|{case}"), format!("{case}: the keyring entry changed"), json!({}));
                }
            }
            if *ct == Ctor::Keyring && r.is_err() && had_keyring_key.is_none() && now_key.is_some() && *fs != FileState::Missing {
                out.violation(format!("{prop}|keyring-key-created-for-foreign-file|{case}"), format!("{case}: refused, yet a key was stored"), json!({}));
            }
            out.distinct.insert(crate::rng::fnv(case.as_bytes()));
            drop(r);
            for suf in ["", "-journal", "-wal", "-shm"] {
                let _ = std::fs::remove_file(format!("{}{}", path.display(), suf));
            }
        }
    }
    // directory / file creation modes
    let fresh = sub.join("made-by-library").join("nested");
    let p = fresh.join("perm.db");
    if let Ok(st) = MdkSqliteStorage::new_with_key(&p, EncryptionConfig::new(k1)) {
        write_probe(&st, 1);
        for d in [&fresh, &sub.join("made-by-library")] {
            let mode = std::fs::metadata(d).map(|m| m.permissions().mode() & 0o777).unwrap_or(0);
            out.count("dir_mode_checks");
            if mode != 0o700 {
                out.violation(format!("{prop}|directory-mode|{:o}", mode), format!("directory created by the library has mode {:o}", mode), json!({}));
            }
        }
        let mode = std::fs::metadata(&p).map(|m| m.permissions().mode() & 0o777).unwrap_or(0);
        out.count("file_mode_checks");
        if mode & 0o077 != 0 {
            out.violation(format!("{prop}|file-mode|{:o}", mode), format!("database file has mode {:o}", mode), json!({}));
        }
    }
    // Files the library creates next to an EXISTING database whose mode somebody widened (a file
    // restored from a backup, copied under umask 022): the rollback journal that exists while a
    // transaction is open is created by the library and must be owner-only as well.
    {
        use mdk_storage_traits::MdkStorageProvider;
        use mdk_storage_traits::groups::GroupStorage;
        let pdir = sub.join("widened");
        let _ = std::fs::create_dir_all(&pdir);
        let wp = pdir.join("widened.db");
        let u = crate::vstore::universe::Universe::new(rng.next());
        let grp = crate::vstore::universe::GroupSpec { g: 0, nid: 0, nid_of: None, name: 0, desc: 0, admins: 1, epoch: 1, state: 0, img: 0, last: None, su: 1 }.build(&u);
        if let Ok(st) = MdkSqliteStorage::new_with_key(&wp, EncryptionConfig::new(k1)) {
            let _ = st.save_group(grp.clone());
            drop(st);
            let _ = std::fs::set_permissions(&wp, std::fs::Permissions::from_mode(0o644));
            if let Ok(st) = MdkSqliteStorage::new_with_key(&wp, EncryptionConfig::new(k1)) {
                let seen: Arc<std::sync::Mutex<Vec<(String, u32)>>> = Arc::new(std::sync::Mutex::new(vec![]));
                let (s2, d2, main) = (seen.clone(), pdir.clone(), wp.clone());
                set_thread_tick_hook(Some(Arc::new(move |l| {
                    if l.contains("snapshot_group_state::") {
                        for e in std::fs::read_dir(&d2).into_iter().flatten().flatten() {
                            if e.path() != main {
                                let mode = e.metadata().map(|m| m.permissions().mode() & 0o777).unwrap_or(0);
                                s2.lock().unwrap().push((e.file_name().to_string_lossy().into_owned(), mode));
                            }
                        }
                    }
                    TickAction::Continue
                })));
                let _ = st.create_group_snapshot(&grp.mls_group_id, "perm-probe");
                set_thread_tick_hook(None);
                let seen = seen.lock().unwrap().clone();
                out.add("sidecar_files_seen_inside_a_transaction_of_a_widened_database", seen.len() as u64);
                if let Some((name, mode)) = seen.iter().find(|(_, m)| m & 0o077 != 0) {
                    out.violation(format!("{prop}|file-mode|sidecar-of-existing-database|{:o}", mode), format!("{name}, created by the library while a transaction was open on an existing database whose mode had been widened to 644, has mode {:o}", mode), json!({}));
                }
            }
        }
    }
    let _ = std::fs::remove_dir_all(&sub);
}

// --------------------------------------------------------------------------------------------
// concurrent first opens through the keyring constructor
// --------------------------------------------------------------------------------------------

fn concurrent_open(prop: &str, i: u64, rng: &mut Rng, out: &mut Outcome, dir: &Path) {
    ensure_keyring();
    let sub = dir.join(format!("co{i}"));
    let _ = std::fs::create_dir_all(&sub);
    let path = sub.join("race.db");
    let service = format!("verif-race-{}-{i}", std::process::id());
    let key_id = "k".to_string();
    let n = rng.range(2, 16);
    out.evaluations += 1;
    out.count("concurrent_open_rounds");
    out.note("concurrent_open_thread_counts", n.to_string());
    let barrier = Arc::new(std::sync::Barrier::new(n));
    let yields = rng.chance(50);
    let results: Vec<Result<bool, String>> = std::thread::scope(|sc| {
        let hs: Vec<_> = (0..n)
            .map(|t| {
                let path = path.clone();
                let service = service.clone();
                let key_id = key_id.clone();
                let barrier = barrier.clone();
                sc.spawn(move || {
                    if yields {
                        set_thread_tick_hook(Some(Arc::new(move |_| {
                            if t % 2 == 0 {
                                std::thread::yield_now();
                            }
                            TickAction::Continue
                        })));
                    }
                    barrier.wait();
                    let r = MdkSqliteStorage::new(&path, &service, &key_id);
                    set_thread_tick_hook(None);
                    match r {
                        Ok(st) => Ok(write_probe(&st, t as u8 + 1)),
                        Err(e) => Err(e.to_string()),
                    }
                })
            })
            .collect();
        hs.into_iter().map(|h| h.join().unwrap_or(Err("thread panicked".into()))).collect()
    });
    let errs: Vec<&String> = results.iter().filter_map(|r| r.as_ref().err()).collect();
    // The property speaks about the KEY (created once, reused). An open that loses the schema
    // migration race and returns an error is recorded as information, not judged.
    for e in &errs {
        let class = if e.contains("Migration") { "migration-race" } else if e.contains("locked") || e.contains("busy") { "database-locked" } else if e.to_lowercase().contains("key") || e.to_lowercase().contains("encrypt") { "key-or-encryption" } else { "other" };
        out.note("concurrent_open_failures_info", class);
        out.count(&format!("concurrent_open_failed_{class}"));
        if class == "key-or-encryption" || e.contains("panicked") {
            out.violation(format!("{prop}|concurrent-first-open-failed|{class}"), format!("a concurrent MdkSqliteStorage::new() on a missing path failed with a key/encryption error: {}", crate::util::short(e, 200)), json!({"threads": n}));
        }
    }
    let ok_count = results.iter().filter(|r| r.is_ok()).count();
    out.add("concurrent_opens_succeeded", ok_count as u64);
    if ok_count == 0 {
        out.violation(format!("{prop}|concurrent-first-open-none-succeeded"), format!("none of {n} concurrent opens succeeded: {}", crate::util::short(errs[0], 200)), json!({"threads": n}));
    } else if results.iter().any(|r| r == &Ok(false)) {
        out.violation(format!("{prop}|concurrent-first-open-cannot-write"), "a storage opened concurrently cannot write", json!({"threads": n}));
    } else {
        // one key: the keyring entry opens the file and sees every thread's row
        match keyring_secret(&service, &key_id) {
            None => out.violation(format!("{prop}|no-keyring-entry-after-open"), "no key in the keyring after a successful open", json!({})),
            Some(k) => {
                let cfg = EncryptionConfig::from_slice(&k).unwrap();
                match MdkSqliteStorage::new_with_key(&path, cfg) {
                    Err(e) => out.violation(format!("{prop}|keyring-key-does-not-open-database"), format!("{e}"), json!({"threads": n})),
                    Ok(st) => {
                        let missing = (0..n).filter(|t| results[*t] == Ok(true) && !read_probe(&st, *t as u8 + 1)).count();
                        if missing > 0 {
                            out.violation(format!("{prop}|rows-written-under-another-key"), format!("{missing} of {n} threads' rows are not visible under the keyring key"), json!({"threads": n}));
                        }
                    }
                }
            }
        }
    }
    out.distinct.insert(crate::rng::fnv(format!("co-{n}-{yields}").as_bytes()));
    let _ = std::fs::remove_dir_all(&sub);
}

pub fn run(ctx: &Ctx) -> i32 {
    let dir = ctx.scratch_dir("c13");
    // SQLite temp files (if any were ever spilled) would land in SQLITE_TMPDIR: not settable per
    // connection, so the per-history tmp dir is only scanned; temp_store is checked through H3
    let n_hist = ctx.budget(200, 3000) as u64;
    let n_ctl = ctx.budget(6, 40) as u64;
    let n_mx = ctx.budget(4, 60) as u64;
    let n_co = ctx.budget(200, 4000) as u64;
    let total = n_hist + n_ctl + n_mx + n_co;
    let out = crate::par::run(ctx, total, std::time::Duration::from_secs(ctx.tier.pick(100, 1500)), |i, rng, out| {
        if i < n_hist {
            leak_history(&ctx.prop, i, rng, out, &dir, false)
        } else if i < n_hist + n_ctl {
            leak_history(&ctx.prop, i, rng, out, &dir, true)
        } else if i < n_hist + n_ctl + n_mx {
            matrix(&ctx.prop, i, rng, out, &dir)
        } else {
            concurrent_open(&ctx.prop, i, rng, out, &dir)
        }
    });
    let _ = std::fs::remove_dir_all(&dir);
    let mut out = out;
    // positive control: the scanner sees every text/identifier class in an UNENCRYPTED database
    let need: BTreeSet<&str> = ["text-message-body", "text-group-name", "mls-group-id", "nostr-group-id", "exporter-secret"].into_iter().collect();
    let found: BTreeSet<String> = out.sets.get("control_classes_found").cloned().unwrap_or_default();
    for n in &need {
        if !found.contains(*n) {
            out.inconclusive.push(format!("positive control: class `{n}` was not found in the unencrypted control databases - the scanner/workload cannot see what it claims to look for"));
        }
    }
    let floors = vec![
        Floor { what: "encrypted histories", have: out.get("scan_points").min(1) * n_hist, need: 20 },
        Floor { what: "scan points", have: out.get("scan_points"), need: 400 },
        Floor { what: "scans inside explicit transactions", have: out.get("in_transaction_scans"), need: 100 },
        Floor { what: "constructor matrix cases", have: out.get("matrix_cases"), need: 60 },
        Floor { what: "concurrent opens that succeeded", have: out.get("concurrent_opens_succeeded"), need: 60 },
        Floor { what: "concurrent first-open rounds", have: out.get("concurrent_open_rounds"), need: 50 },
    ];
    finish(
        ctx,
        "exploration",
        "(a) histories on a SQLCipher-backed client (messages with canary bodies, 25% of them 20-50 KB so that overflow pages exist; group name / description / relays / image key+nonce / nostr-id rotations; commit races resolved by rollback): after every step, and inside the snapshot / restore transactions (tick hook, hot journal present), every file of the database directory is scanned for every registered secret (canary texts, MLS group id, every nostr group id, exporter secrets of the last 7 epochs, image key/nonce, the database key) in raw, lower-hex and upper-hex form; positive control: the same workload on an unencrypted database must yield hits for every class. (b) constructor matrix {new (mock keyring), new_with_key, new_unencrypted} x file {missing, empty, plain, encrypted k1, encrypted k2, garbage, encrypted by keyring} with an expectation table, data retention and no-damage-by-refused-open checks, file/directory modes. (c) 2-16 threads call MdkSqliteStorage::new on a missing path at a barrier (with tick-hook yields in half the rounds): at least one succeeds, no open fails with a key/encryption error, the keyring holds one key that opens the file, and every row written by a successful open is visible under it (opens that lose the schema-migration race are counted as information). (d) PRAGMA cipher_version / temp_store / foreign_keys through hook H3",
        out,
        floors,
        vec![
            "a temp-file spill is not provoked; temp_store=MEMORY is observed through the H3 accessor instead".into(),
            "the keyring is keyring-core's mock store (one per process)".into(),
        ],
        json!({}),
    )
}
