//! C14 - logs and errors never carry group identifiers or secrets.
//! A tour re-runs reduced budgets of the other checks' generators with capture on (tracing
//! subscriber at TRACE for every target + Display/Debug of every error and processing result),
//! then scans what was captured for every secret the harness learnt in that scenario.

use std::collections::BTreeMap;

use serde_json::json;

use super::hist::{HistCfg, run_history};
use super::histcheck::{Regime, regime_cfg};
use crate::capture;
use crate::report::{Ctx, Floor, Outcome, finish};
use crate::rng::Rng;

fn debug_redaction_probes(out: &mut Outcome, prop: &str, rng: &mut Rng) {
    // result / configuration types that hold secrets must print a redaction
    use mdk_sqlite_storage::EncryptionConfig;
    use mdk_storage_traits::Secret;
    let key = rng.bytes::<32>();
    let probes: Vec<(&str, String)> = vec![
        ("EncryptionConfig", format!("{:?} {:#?}", EncryptionConfig::new(key), EncryptionConfig::new(key))),
        ("Secret<[u8;32]>", format!("{:?} {:#?}", Secret::new(key), Secret::new(key))),
        ("GroupExporterSecret", {
            let s = mdk_storage_traits::groups::types::GroupExporterSecret { mls_group_id: mdk_storage_traits::GroupId::from_slice(&[0x5a; 16]), epoch: 1, secret: Secret::new(key) };
            format!("{s:?} {s:#?}")
        }),
        ("MdkBuilder/MDK<Memory>", {
            // MdkSqliteStorage has no Debug impl at all; the memory-backed instance embeds the
            // storage and the snapshot manager
            let b = mdk_core::MDK::builder(mdk_memory_storage::MdkMemoryStorage::default());
            let s1 = format!("{b:?}");
            let m = b.build();
            format!("{s1} {m:?}")
        }),
        ("EpochSnapshotManager", format!("{:?}", mdk_core::epoch_snapshots::EpochSnapshotManager::new(3))),
    ];
    for (name, text) in probes {
        out.count("debug_redaction_probes");
        for (form, n) in capture::needles("probe-key", &key) {
            if text.contains(&n) {
                out.violation(format!("{prop}|debug-prints-secret|type={name}|{form}"), format!("Debug of {name} contains the secret ({form})"), json!({"type": name}));
            }
        }
    }
}

fn scan(prop: &str, what: &str, i: u64, cap: capture::Capture, out: &mut Outcome) {
    let mut needles: Vec<(String, String)> = vec![];
    for (class, b) in &cap.secrets {
        needles.extend(capture::needles(class, b));
    }
    out.add("secrets_registered", cap.secrets.len() as u64);
    out.add("log_records_captured", cap.logs.len() as u64);
    out.add("values_captured", cap.values.len() as u64);
    let mut third_party: BTreeMap<String, u64> = BTreeMap::new();
    for l in &cap.logs {
        let judged = l.target.starts_with("mdk_");
        if judged {
            out.count("mdk_log_records_scanned");
            out.note("log_call_sites", format!("{} {}", l.target, l.site.rsplit('/').next().unwrap_or("")));
            out.note("log_levels", l.level.clone());
        }
        for (form, n) in &needles {
            if l.text.contains(n.as_str()) {
                if judged {
                    let class = form.split(':').next().unwrap_or("");
                    out.violation(
                        format!("{prop}|log-carries-secret|class={class}|target={}|site={}", l.target, l.site.rsplit('/').next().unwrap_or("")),
                        format!("[{what} #{i}] {} {} record contains {form}: `{}`", l.level, l.target, crate::util::short(&l.text, 240)),
                        json!({"workload": what, "scenario": i, "site": l.site}),
                    );
                } else {
                    *third_party.entry(format!("{}:{}", l.target.split("::").next().unwrap_or(""), form.split(':').next().unwrap_or(""))).or_insert(0) += 1;
                }
                break;
            }
        }
    }
    for (k, v) in third_party {
        out.note("third_party_targets_with_identifiers_info", k.clone());
        out.add(&format!("third_party_records_with_identifiers:{k}"), v);
    }
    for (origin, text) in &cap.values {
        out.count("values_scanned");
        out.note("value_origins", origin.clone());
        let variant = text.split(|c: char| !(c.is_ascii_alphanumeric() || c == '_')).next().unwrap_or("").to_string();
        out.note("error_variants", format!("{}:{}", origin.split(':').next().unwrap_or(""), variant));
        for (form, n) in &needles {
            if text.contains(n.as_str()) {
                let class = form.split(':').next().unwrap_or("");
                out.violation(
                    format!("{prop}|value-carries-secret|class={class}|origin={origin}|variant={variant}"),
                    format!("[{what} #{i}] {origin} rendering contains {form}: `{}`", crate::util::short(text, 240)),
                    json!({"workload": what, "scenario": i}),
                );
                break;
            }
        }
    }
}

pub fn run(ctx: &Ctx) -> i32 {
    capture::install();
    let dir = ctx.scratch_dir("c14");
    let n = ctx.budget(1500, 24_000) as u64;
    let out = crate::par::run(ctx, n, std::time::Duration::from_secs(ctx.tier.pick(100, 1200)), |i, rng, out| {
        out.evaluations += 1;
        let mut scratch = Outcome::default();
        capture::start();
        let what: String = match i % 14 {
            0..=4 => {
                let regime = *rng.pick(&[Regime::Clean, Regime::Immediate, Regime::Unrestricted, Regime::CausalNoPropFirst, Regime::Roster, Regime::RotateRace, Regime::Restart]);
                let sqlite_pct = if i % 3 == 0 { 60 } else { 0 };
                let sim = regime_cfg(regime, rng, sqlite_pct);
                let cfg = HistCfg { sim, redelivery_pct: 10, judge_c01: false, judge_c02: false, keep_world: false, check_refusals: false };
                let _ = run_history(rng, &cfg, &dir, &format!("c14-{i}"));
                format!("history:{regime:?}")
            }
            5 | 6 => {
                super::c06::trial("C06", i, rng, &mut scratch, &dir);
                "hostile-inputs".into()
            }
            7 => {
                super::c06::l4_trial("C06", i, rng, &mut scratch, &dir);
                "hostile-welcomes-keypackages".into()
            }
            8 => {
                super::c16::trial("C16", i, rng, &mut scratch, &dir);
                "invitations".into()
            }
            9 => {
                super::c04::trial("C04", i, rng, &mut scratch, &dir);
                "rumor-attacks".into()
            }
            10 => {
                if i % 2 == 0 {
                    super::c05::family1("C05", i, rng, &mut scratch, &dir)
                } else {
                    super::c05::family2("C05", i, rng, &mut scratch, &dir)
                }
                "authorisation".into()
            }
            11 => {
                super::c12::in_process_txn_faults("C12", i, rng, &mut scratch, &dir);
                "storage-faults".into()
            }
            12 => {
                super::c03::history("C03", i, rng, &mut scratch, &dir);
                "observers".into()
            }
            _ => {
                if i % 56 == 13 {
                    super::c13::matrix("C13", i, rng, &mut scratch, &dir);
                    "sqlite-constructors".into()
                } else if i % 56 == 27 {
                    super::c06::uniffi_trial("C06", i, rng, &mut scratch, &dir);
                    "uniffi-strings".into()
                } else {
                    super::c06::l4_trial("C06", i, rng, &mut scratch, &dir);
                    "hostile-welcomes-keypackages".into()
                }
            }
        };
        let cap = capture::stop();
        out.note("workloads", what.clone());
        if cap.logs.iter().any(|l| l.target.starts_with("mdk_")) {
            out.distinct.insert(crate::rng::fnv(format!("{what}-{i}").as_bytes()));
        }
        if i < 3 {
            let sample: Vec<String> = cap.logs.iter().filter(|l| l.target.starts_with("mdk_")).take(12).map(|l| format!("{} {} {}", l.level, l.target, crate::util::short(&l.text, 120))).collect();
            out.sample(json!({"workload": what, "scenario": i, "mdk_records": sample, "secrets_registered": cap.secrets.len(), "values": cap.values.iter().take(6).map(|v| format!("{} = {}", v.0, crate::util::short(&v.1, 100))).collect::<Vec<_>>()}), 3);
        }
        scan(&ctx.prop, &what, i, cap, out);
        if i == 0 {
            debug_redaction_probes(out, &ctx.prop, rng);
        }
    });
    let _ = std::fs::remove_dir_all(&dir);
    let floors = vec![
        Floor { what: "log records from mdk_* targets scanned", have: out.get("mdk_log_records_scanned"), need: 20_000 },
        Floor { what: "distinct mdk log call sites observed", have: out.sets.get("log_call_sites").map(|s| s.len()).unwrap_or(0) as u64, need: 40 },
        Floor { what: "error / result renderings scanned", have: out.get("values_scanned"), need: 5000 },
        Floor { what: "distinct (origin, variant) of errors and results", have: out.sets.get("error_variants").map(|s| s.len()).unwrap_or(0) as u64, need: 25 },
        Floor { what: "secrets registered", have: out.get("secrets_registered"), need: 1000 },
    ];
    finish(
        ctx,
        "exploration",
        "tour over the generators of C01-C07, C12 (in-process storage faults), C13 (constructor errors), C16 and the uniffi string probes with capture on: a tracing subscriber records every event of every level and target (message + all fields); every Err and every MessageProcessingResult handed to the harness is rendered with Display, Debug and alternate Debug. While driving, the harness registers the MLS group id, every nostr group id in force, exporter secrets of the last epochs of every client, image key / nonce / upload seed and database keys. After each scenario every record whose target starts with `mdk_` and every rendering is searched for every registered value as lower/upper hex, decimal byte list, and 8-byte prefix/suffix windows; records of other targets (openmls ...) are counted as information only. Debug of EncryptionConfig, Secret<_>, GroupExporterSecret, MdkBuilder/MDK and EpochSnapshotManager is probed for the raw key. distinct = scenarios that produced mdk log records",
        out,
        floors,
        vec![
            "plain data carriers whose purpose is to hand the id to the application (Group, Welcome, UpdateGroupResult) are not logs or errors and are not judged".into(),
            "event ids, public keys, epochs and timestamps are not in the sensitive list".into(),
        ],
        json!({}),
    )
}
