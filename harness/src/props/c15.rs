//! C15 - wire formats round-trip and parsers accept nothing ambiguous.

use std::collections::BTreeSet;

use mdk_core::prelude::*;
use nostr::base64::Engine;
use nostr::base64::engine::general_purpose::STANDARD as B64;
use nostr::{EventBuilder, EventId, Keys, Kind, PublicKey, RelayUrl, Tag, TagKind, Tags};
use serde_json::json;

use super::c16::forge_welcome;
use crate::report::{Ctx, Floor, Outcome, finish};
use crate::rng::Rng;
use crate::sim::adversary as adv;
use crate::sim::gdext::GdRaw;
use crate::sim::scenario::*;
use crate::sim::*;
use crate::with_mdk;

fn rand_text(rng: &mut Rng, max: usize) -> String {
    let k = rng.below(7);
    match k {
        0 => String::new(),
        1 => "x".repeat(max),
        2 => "\u{1F980}\u{65e5}\u{672c} \u{00e9}\u{0301} \u{202e}rtl".to_string(),
        3 => "a\u{0000}b\tc\nd \"quoted\" \\ back".to_string(),
        4 => (0..rng.below(40)).map(|_| char::from_u32(0x4e00 + rng.below(2000) as u32).unwrap_or('x')).collect(),
        _ => format!("name-{}", rng.next()),
    }
}

fn gd_matches(gd: &NostrGroupDataExtension, raw: &GdRaw) -> Result<(), String> {
    if gd.version != raw.version {
        return Err(format!("version {} vs {}", gd.version, raw.version));
    }
    if gd.nostr_group_id != raw.nostr_group_id {
        return Err("nostr_group_id".into());
    }
    if gd.name.as_bytes() != raw.name.as_slice() {
        return Err("name".into());
    }
    if gd.description.as_bytes() != raw.description.as_slice() {
        return Err("description".into());
    }
    let a: BTreeSet<[u8; 32]> = gd.admins.iter().map(|p| p.to_bytes()).collect();
    let b: BTreeSet<[u8; 32]> = raw.admins.iter().copied().collect();
    if a != b {
        return Err("admins".into());
    }
    let ra: BTreeSet<String> = gd.relays.iter().map(|r| r.to_string()).collect();
    let rb: BTreeSet<String> = raw.relays.iter().map(|r| String::from_utf8_lossy(r).to_string()).collect();
    if ra != rb {
        return Err(format!("relays {:?} vs {:?}", ra, rb));
    }
    let opt = |v: &Vec<u8>| if v.is_empty() { None } else { Some(v.clone()) };
    if gd.image_hash.map(|x| x.to_vec()) != opt(&raw.image_hash) {
        return Err("image_hash".into());
    }
    if gd.image_key.map(|x| x.to_vec()) != opt(&raw.image_key) {
        return Err("image_key".into());
    }
    if gd.image_nonce.map(|x| x.to_vec()) != opt(&raw.image_nonce) {
        return Err("image_nonce".into());
    }
    if gd.image_upload_key.map(|x| x.to_vec()) != opt(&raw.image_upload_key) {
        return Err("image_upload_key".into());
    }
    Ok(())
}

/// (A) group-data extension through the library's own encoder, decoded at sender, receiver,
/// joiner and cross-checked with the hand-written reader.
fn extension_roundtrip(prop: &str, i: u64, rng: &mut Rng, out: &mut Outcome, dir: &std::path::Path) {
    let mut w = World::empty(dir.to_path_buf(), format!("c15-{i}"));
    let cfg = mdk_core::MdkConfig::default();
    let a = w.add_client(BackendKind::Memory, cfg.clone(), rng);
    let b = w.add_client(if i % 5 == 0 { BackendKind::Sqlite } else { BackendKind::Memory }, cfg.clone(), rng);
    let j = w.add_client(BackendKind::Memory, cfg.clone(), rng);
    out.evaluations += 1;
    // create_group with generated data
    let name = rand_text(rng, 255);
    let desc = rand_text(rng, 2000);
    let n_rel = if rng.chance(8) { 0 } else { rng.range(1, 3) };
    let relays: Vec<RelayUrl> = (0..n_rel)
        .map(|k| {
            let s = match rng.below(7) {
                0 => format!("wss://r{k}.example.com"),
                1 => format!("wss://r{k}.example.com/{}", rng.below(3)),
                2 => format!("wss://r{k}.example.com/{}/", rng.below(3)),
                3 => format!("wss://r{k}.example.com/a/b/c/"),
                4 => format!("wss://R{k}.Example.COM:7777/Path/"),
                5 => format!("ws://r{k}.example.com/?q=1"),
                _ => format!("wss://r{k}.example.com//double//"),
            };
            out.note("relay_url_shapes", s.replace(|c: char| c.is_ascii_digit(), "N"));
            RelayUrl::parse(&s).unwrap()
        })
        .collect();
    let img = rng.below(8);
    let ih = (img & 1 != 0).then(|| rng.bytes::<32>());
    let ik = (img & 2 != 0).then(|| rng.bytes::<32>());
    let inn = (img & 4 != 0).then(|| rng.bytes::<12>());
    let admins = if rng.chance(50) { vec![w.clients[a].pk(), w.clients[b].pk()] } else { vec![w.clients[a].pk()] };
    let kp = w.clients[b].key_package_event();
    let conf = NostrGroupConfigData::new(name.clone(), desc.clone(), ih, ik, inn, relays.clone(), admins.clone());
    let apk = w.clients[a].pk();
    let res = with_mdk!(w.clients[a].mdk, x => x.create_group(&apk, vec![kp], conf));
    let Ok(res) = res else {
        out.note("create_group_refusals", res.err().map(|e| error_variant(&e)).unwrap_or_default());
        return;
    };
    let gid = res.group.mls_group_id.clone();
    w.groups.push(GroupCtx { gid: gid.clone(), oracle: None, invited: [a, b].into_iter().collect() });
    let g = 0;
    let check_at = |w: &World, c: usize, what: &str, out: &mut Outcome, intended: &dyn Fn(&NostrGroupDataExtension) -> Result<(), String>| -> bool {
        let r = with_mdk!(w.clients[c].mdk, x => {
            let grp = x.load_mls_group(&gid).ok().flatten();
            let gd = grp.as_ref().and_then(|g| NostrGroupDataExtension::from_group(g).ok());
            let raw = adv::group_data_raw(x, &gid);
            let rec = x.get_group(&gid).ok().flatten();
            let rel = x.get_relays(&gid).ok();
            (gd, raw, rec, rel)
        });
        out.count("extension_decodings_checked");
        let (Some(gd), Some(raw), Some(rec), Some(rel)) = r else {
            out.violation(format!("{prop}|extension-unreadable|at={what}"), format!("extension written by the library cannot be read back at {what}"), json!({"scenario": i}));
            return false;
        };
        if let Err(e) = intended(&gd) {
            out.violation(format!("{prop}|extension-roundtrip|at={what}|field={}", e.split(' ').next().unwrap_or("")), format!("decoded value differs from the encoded one at {what}: {e}"), json!({"scenario": i}));
            return false;
        }
        match GdRaw::decode(&raw) {
            Err(e) => {
                out.violation(format!("{prop}|independent-reader-rejects-library-encoding|{}", crate::util::first_words(&e, 3)), format!("hand-written TLS reader: {e}"), json!({"scenario": i, "bytes": hex::encode(&raw)}));
                return false;
            }
            Ok(r2) => {
                if let Err(e) = gd_matches(&gd, &r2) {
                    out.violation(format!("{prop}|independent-reader-disagrees|field={}", e.split(' ').next().unwrap_or("")), format!("library decode and hand-written decode differ: {e}"), json!({"scenario": i}));
                    return false;
                }
                // canonical: re-encoding with the independent writer gives the same bytes
                if r2.encode() != raw {
                    out.violation(format!("{prop}|encoding-not-canonical"), "independent re-encoding differs from the library's bytes".to_string(), json!({"scenario": i}));
                    return false;
                }
            }
        }
        // mirrored record
        if rec.name != gd.name || rec.description != gd.description || rec.admin_pubkeys != gd.admins || rec.nostr_group_id != gd.nostr_group_id || rec.image_hash != gd.image_hash || rel != gd.relays {
            out.violation(format!("{prop}|record-differs-from-extension|at={what}"), format!("stored record differs from the decoded extension at {what}"), json!({"scenario": i}));
            return false;
        }
        true
    };
    let intended_create = |gd: &NostrGroupDataExtension| -> Result<(), String> {
        if gd.name != name {
            return Err("name".into());
        }
        if gd.description != desc {
            return Err("description".into());
        }
        if gd.admins != admins.iter().copied().collect() {
            return Err("admins".into());
        }
        if gd.relays != relays.iter().cloned().collect() {
            return Err("relays".into());
        }
        if gd.image_hash != ih || gd.image_key != ik || gd.image_nonce != inn || gd.image_upload_key.is_some() {
            return Err("image fields".into());
        }
        Ok(())
    };
    if !check_at(&w, a, "creator", out, &intended_create) {
        w.cleanup();
        return;
    }
    // joiner from the welcome
    let wid = EventId::from_byte_array(rng.bytes::<32>());
    let wl = with_mdk!(w.clients[b].mdk, x => x.process_welcome(&wid, &res.welcome_rumors[0]));
    match wl {
        Ok(wl) => {
            out.count("welcome_roundtrips");
            if wl.group_name != name || wl.group_description != desc || wl.group_image_hash != ih || wl.group_relays != relays.iter().cloned().collect() || wl.group_admin_pubkeys != admins.iter().copied().collect() {
                out.violation(format!("{prop}|welcome-roundtrip|group-data-differs"), "welcome preview shows different group data than the inviter encoded".to_string(), json!({"scenario": i}));
                w.cleanup();
                return;
            }
            let _ = with_mdk!(w.clients[b].mdk, x => x.accept_welcome(&wl));
            if !check_at(&w, b, "joiner", out, &intended_create) {
                w.cleanup();
                return;
            }
        }
        Err(e) => {
            // history-derived predicate: the group was created with an empty relay list
            let pred = if n_rel == 0 { "group-created-without-relays" } else { "other" };
            out.violation(format!("{prop}|valid-welcome-refused|{}|{pred}", error_variant(&e)), format!("welcome produced by create_group ({n_rel} relays) refused: {e}"), json!({"scenario": i}));
            w.cleanup();
            return;
        }
    }
    for c in [a, b] {
        if let Some(st) = w.clients[c].state(g, &gid) {
            w.clients[c].reached.insert(st);
        }
    }
    // update_group_data with every presence pattern of the four image fields
    for _ in 0..rng.range(1, 3) {
        w.t += 2;
        let img = rng.below(16);
        let name2 = rand_text(rng, 255);
        let desc2 = rand_text(rng, 2000);
        let ih2 = (img & 1 != 0).then(|| rng.bytes::<32>());
        let ik2 = (img & 2 != 0).then(|| rng.bytes::<32>());
        let in2 = (img & 4 != 0).then(|| rng.bytes::<12>());
        let iu2 = (img & 8 != 0).then(|| rng.bytes::<32>());
        let nid2 = rng.bytes::<32>();
        let upd = NostrGroupDataUpdate::new().name(name2.clone()).description(desc2.clone()).image_hash(ih2).image_key(ik2).image_nonce(in2).image_upload_key(iu2).nostr_group_id(nid2);
        mdk_core::verif::set_created_at(Some(w.t));
        let at = w.clients[a].state(g, &gid).unwrap();
        let r = with_mdk!(w.clients[a].mdk, x => x.update_group_data(&gid, upd));
        let Ok(u) = r else {
            out.note("update_refusals", r.err().map(|e| error_variant(&e)).unwrap_or_default());
            continue;
        };
        let idx = w.log.len();
        w.log.push(Pub { ev: u.evolution_event, kind: PubKind::Commit, author: a, g, at, refs: vec![], what: "update".into(), rumor: None, mode: OwnMode::Immediate, welcomes: vec![], adversarial: false });
        w.clients[a].pending_own.insert(g, idx);
        w.act_merge(a, g);
        w.deliver(b, idx, OwnMode::Echo);
        out.note("image_presence_patterns", format!("{img:04b}"));
        let intended = |gd: &NostrGroupDataExtension| -> Result<(), String> {
            if gd.name != name2 {
                return Err("name".into());
            }
            if gd.description != desc2 {
                return Err("description".into());
            }
            if gd.nostr_group_id != nid2 {
                return Err("nostr_group_id".into());
            }
            // clearing the hash clears the related material (documented)
            let (ek, en, eu) = if ih2.is_none() { (ik2, in2, iu2) } else { (ik2, in2, iu2) };
            if gd.image_hash != ih2 || gd.image_key != ek || gd.image_nonce != en || gd.image_upload_key != eu {
                return Err(format!("image fields (pattern {img:04b})"));
            }
            Ok(())
        };
        if !check_at(&w, a, "committer", out, &intended) || !check_at(&w, b, "receiver", out, &intended) {
            w.cleanup();
            return;
        }
    }
    out.distinct.insert(crate::rng::fnv(format!("ext-{i}-{name}-{img}").as_bytes()));
    if i < 2 {
        out.sample(json!({"kind": "extension-roundtrip", "name_len": name.len(), "desc_len": desc.len(), "relays": n_rel, "admins": admins.len(), "image_pattern": img}), 6);
    }
    let _ = j;
    w.cleanup();
}

/// (B) forged extension bytes inside a welcome: valid encodings with any version must round-trip,
/// every single-field mutation must be refused.
fn extension_mutations(prop: &str, i: u64, rng: &mut Rng, out: &mut Outcome, dir: &std::path::Path) {
    let mut w = World::empty(dir.to_path_buf(), format!("c15m-{i}"));
    let r = w.add_client(BackendKind::Memory, mdk_core::MdkConfig::default(), rng);
    out.evaluations += 1;
    let sender = Keys::generate().public_key();
    let base = GdRaw {
        version: 2,
        nostr_group_id: rng.bytes::<32>(),
        name: b"forged".to_vec(),
        description: "d\u{e9}sc".as_bytes().to_vec(),
        admins: vec![sender.to_bytes()],
        relays: vec![b"wss://relay.example.com".to_vec()],
        image_hash: rng.vec(32),
        image_key: rng.vec(32),
        image_nonce: rng.vec(12),
        image_upload_key: rng.vec(32),
    };
    let mut labels = vec![];
    for _ in 0..rng.range(6, 12) {
        let kp = w.clients[r].key_package_event();
        let k = rng.below(20);
        let mut raw = base.clone();
        raw.nostr_group_id = rng.bytes::<32>();
        let mut bytes_override: Option<Vec<u8>> = None;
        // every mutation is applied to a valid encoding of EVERY version class, not only to the one
        // the library writes (a parser may treat later versions more leniently)
        if k >= 6 && rng.chance(60) {
            raw.version = *rng.pick(&[1u16, 2, 3, 7, 255, 256, 4096, 65535]);
        }
        let vclass = match raw.version {
            1 => "v1",
            2 => "v2",
            _ => "v3+",
        };
        let (label, must_refuse): (String, bool) = match k {
            0..=3 => {
                raw.version = *rng.pick(&[1u16, 1, 2, 3, 7, 255, 256, 4096, 65535]);
                // every presence pattern of the four optional image fields, for every version
                let pat = rng.below(16);
                if pat & 1 == 0 {
                    raw.image_hash = vec![];
                }
                if pat & 2 == 0 {
                    raw.image_key = vec![];
                }
                if pat & 4 == 0 {
                    raw.image_nonce = vec![];
                }
                if pat & 8 == 0 {
                    raw.image_upload_key = vec![];
                }
                out.note("forged_version_x_image_pattern", format!("v{}:{:04b}", raw.version.min(3), pat));
                (format!("valid-version-{}", raw.version), false)
            }
            4 => {
                raw.image_hash = vec![];
                raw.image_key = vec![];
                raw.image_nonce = vec![];
                raw.image_upload_key = vec![];
                ("valid-no-image".into(), false)
            }
            5 => {
                raw.version = 0;
                ("version-0".into(), true)
            }
            6 => {
                let mut b = raw.encode();
                let nn = 1 + rng.below(8);
                b.extend_from_slice(&rng.vec(nn));
                bytes_override = Some(b);
                ("trailing-bytes".into(), true)
            }
            7 => {
                raw.image_hash = {
                    let nn = *rng.pick(&[1usize, 31, 33, 64]);
                    rng.vec(nn)
                };
                ("image_hash-length".into(), true)
            }
            8 => {
                raw.image_key = {
                    let nn = *rng.pick(&[1usize, 31, 33]);
                    rng.vec(nn)
                };
                ("image_key-length".into(), true)
            }
            9 => {
                raw.image_nonce = {
                    let nn = *rng.pick(&[1usize, 11, 13, 24]);
                    rng.vec(nn)
                };
                ("image_nonce-length".into(), true)
            }
            10 => {
                raw.image_upload_key = {
                    let nn = *rng.pick(&[1usize, 31, 33]);
                    rng.vec(nn)
                };
                ("image_upload_key-length".into(), true)
            }
            11 => {
                raw.name = vec![0xff, 0xfe, 0x80];
                ("name-not-utf8".into(), true)
            }
            12 => {
                raw.description = vec![0xc3, 0x28];
                ("description-not-utf8".into(), true)
            }
            13 => {
                raw.relays = vec![b"not a url".to_vec()];
                ("relay-not-a-url".into(), true)
            }
            14 => {
                raw.relays = vec![vec![0xff, 0xff]];
                ("relay-not-utf8".into(), true)
            }
            15 => {
                let b = raw.encode();
                let n = rng.below(b.len() - 1).max(1);
                bytes_override = Some(b[..n].to_vec());
                ("truncated".into(), true)
            }
            16 => {
                // admins vector whose byte length is not a multiple of 32
                let mut o = vec![];
                o.extend_from_slice(&raw.version.to_be_bytes());
                o.extend_from_slice(&raw.nostr_group_id);
                crate::sim::gdext::put_varint(&mut o, raw.name.len());
                o.extend_from_slice(&raw.name);
                crate::sim::gdext::put_varint(&mut o, raw.description.len());
                o.extend_from_slice(&raw.description);
                crate::sim::gdext::put_varint(&mut o, 33);
                o.extend_from_slice(&rng.vec(33));
                let rest = GdRaw { admins: vec![], name: vec![], description: vec![], ..raw.clone() }.encode();
                // rest = version(2) + nid(32) + name(1) + desc(1) + admins(1) + relays...
                o.extend_from_slice(&rest[2 + 32 + 3..]);
                bytes_override = Some(o);
                ("admins-length-not-multiple-of-32".into(), true)
            }
            17 => {
                // non-minimal length prefix for the name (2-byte varint for a 6-byte vector)
                let enc = raw.encode();
                let mut o = enc[..34].to_vec();
                o.extend_from_slice(&[0x40, raw.name.len() as u8]);
                o.extend_from_slice(&enc[35..]);
                bytes_override = Some(o);
                ("non-minimal-length-prefix".into(), true)
            }
            18 => {
                bytes_override = Some(vec![]);
                ("empty-extension".into(), true)
            }
            _ => {
                raw.admins = vec![];
                ("no-admins".into(), false)
            }
        };
        let label = if k >= 6 { format!("{label}@{vclass}") } else { label };
        let bytes = bytes_override.unwrap_or_else(|| raw.encode());
        let Some(rumor) = forge_welcome(&kp, &rng.vec(16), bytes.clone(), sender, rng) else {
            labels.push(format!("{label}: could not forge"));
            out.note("mutations_not_forgeable", label.clone());
            continue;
        };
        let wid = EventId::from_byte_array(rng.bytes::<32>());
        let res = with_mdk!(w.clients[r].mdk, x => x.process_welcome(&wid, &rumor));
        out.count("extension_mutation_trials");
        out.note("extension_cases", format!("{label} -> {}", if res.is_ok() { "accepted" } else { "refused" }));
        labels.push(label.clone());
        match (res, must_refuse) {
            (Ok(_), true) => {
                out.violation(format!("{prop}|ambiguous-extension-accepted|{label}"), format!("a group-data extension with {label} was accepted ({} bytes)", bytes.len()), json!({"bytes": hex::encode(&bytes)}));
            }
            (Err(e), false) => {
                if label.starts_with("no-admins") {
                    out.note("info", format!("extension without admins refused: {}", error_variant(&e)));
                } else {
                    out.violation(format!("{prop}|valid-extension-refused|{}", label.split('-').take(2).collect::<Vec<_>>().join("-")), format!("{label}: {e}"), json!({"bytes": hex::encode(&bytes)}));
                }
            }
            (Ok(wl), false) => {
                // round trip through the welcome preview
                if wl.group_name.as_bytes() != raw.name.as_slice() || wl.nostr_group_id != raw.nostr_group_id {
                    out.violation(format!("{prop}|extension-roundtrip|forged-valid|{label}"), "welcome preview differs from the forged extension".to_string(), json!({}));
                }
                // ... and through the joined group: what the library parses out of the group context
                // must be exactly what was forged into it
                if with_mdk!(w.clients[r].mdk, x => x.accept_welcome(&wl)).is_ok() {
                    let gd = with_mdk!(w.clients[r].mdk, x => x.load_mls_group(&wl.mls_group_id).ok().flatten().and_then(|grp| NostrGroupDataExtension::from_group(&grp).ok()));
                    match gd {
                        Some(gd) => {
                            out.count("forged_extensions_compared_field_by_field");
                            if let Err(what) = gd_matches(&gd, &raw) {
                                out.violation(format!("{prop}|extension-roundtrip|forged-valid|field={}", what.split(' ').next().unwrap_or("")), format!("{label}: the extension parsed from the joined group differs from the forged bytes in {what} (version {}, image fields present: hash {} key {} nonce {} upload key {})", raw.version, !raw.image_hash.is_empty(), !raw.image_key.is_empty(), !raw.image_nonce.is_empty(), !raw.image_upload_key.is_empty()), json!({"bytes": hex::encode(&bytes)}));
                            }
                        }
                        None => out.violation(format!("{prop}|extension-roundtrip|forged-valid|unreadable-after-join"), format!("{label}: the joined group's extension cannot be parsed"), json!({"bytes": hex::encode(&bytes)})),
                    }
                }
                if label.starts_with("valid-version") {
                    out.note("versions_roundtripped", raw.version.to_string());
                }
            }
            (Err(_), true) => {}
        }
    }
    out.distinct.insert(crate::rng::fnv(labels.join("|").as_bytes()));
    w.cleanup();
}

/// A second TEXT for the same bytes: base64 that decodes (under a lenient decoder) to exactly what the
/// canonical text decodes to. None if the canonical text offers no room for the variant.
fn non_canonical_base64(c: &str, rng: &mut Rng) -> Option<(&'static str, String)> {
    let pad = c.chars().rev().take_while(|ch| *ch == '=').count();
    let body = &c[..c.len() - pad];
    match rng.below(6) {
        0 if pad > 0 => Some(("content-base64-padding-stripped", body.to_string())),
        0 | 1 if pad == 2 => Some(("content-base64-one-of-two-paddings-stripped", format!("{body}="))),
        1 | 2 => Some(("content-base64-extra-padding", format!("{c}="))),
        3 if c.contains('+') || c.contains('/') => Some(("content-base64-url-safe-alphabet", c.replace('+', "-").replace('/', "_"))),
        3 | 4 => {
            let mid = c.len() / 2 / 4 * 4;
            Some(("content-base64-with-a-line-break", format!("{}\n{}", &c[..mid], &c[mid..])))
        }
        _ => {
            // non-zero trailing bits: the last symbol before the padding carries bits that are not data
            if pad == 0 {
                return None;
            }
            const ABC: &[u8] = b"ABCDEFGHIJKLMNOPQRSTUVWXYZabcdefghijklmnopqrstuvwxyz0123456789+/";
            let last = body.as_bytes()[body.len() - 1];
            let idx = ABC.iter().position(|x| *x == last)?;
            let alt = ABC[idx | 1];
            if alt == last {
                return None;
            }
            Some(("content-base64-non-zero-trailing-bits", format!("{}{}{}", &body[..body.len() - 1], alt as char, "=".repeat(pad))))
        }
    }
}

/// (C) key-package events and (D) welcome rumors.
fn keypackage_and_welcome(prop: &str, i: u64, rng: &mut Rng, out: &mut Outcome, dir: &std::path::Path) {
    let mut w = World::empty(dir.to_path_buf(), format!("c15k-{i}"));
    let cfg = mdk_core::MdkConfig::default();
    let a = w.add_client(BackendKind::Memory, cfg.clone(), rng);
    let b = w.add_client(BackendKind::Memory, cfg.clone(), rng);
    out.evaluations += 1;
    let keys = w.clients[b].keys.clone();
    let mut labels = vec![];
    // ---- key packages ---------------------------------------------------------------------------
    for _ in 0..rng.range(4, 8) {
        let protected = rng.chance(30);
        let relays: Vec<RelayUrl> = (0..rng.range(1, 3)).map(|k| relay(k)).collect();
        let made = with_mdk!(w.clients[b].mdk, x => x.create_key_package_for_event_with_options(&keys.public_key(), relays.clone(), protected));
        let Ok((content, tags, _)) = made else { continue };
        let valid = EventBuilder::new(Kind::MlsKeyPackage, content.clone()).tags(tags.clone()).sign_with_keys(&keys).unwrap();
        // round trip
        let parsed = with_mdk!(w.clients[a].mdk, x => x.parse_key_package(&valid));
        out.count("key_package_roundtrips");
        match parsed {
            Err(e) => {
                out.violation(format!("{prop}|valid-key-package-refused|{}", error_variant(&e)), format!("{e}"), json!({}));
                continue;
            }
            Ok(kp) => {
                use openmls::prelude::BasicCredential;
                use openmls_traits::OpenMlsProvider;
                let ident = BasicCredential::try_from(kp.leaf_node().credential().clone()).map(|c| c.identity().to_vec()).unwrap_or_default();
                if ident != keys.public_key().to_bytes() {
                    out.violation(format!("{prop}|key-package-roundtrip|identity"), "parsed identity differs from the author".to_string(), json!({}));
                }
                let href = with_mdk!(w.clients[a].mdk, x => kp.hash_ref(x.provider.crypto()).map(|h| hex::encode(h.as_slice())).unwrap_or_default());
                let itag = tags.iter().find(|t| t.kind() == TagKind::i()).and_then(|t| t.content().map(|s| s.to_string())).unwrap_or_default();
                if href != itag {
                    out.violation(format!("{prop}|key-package-roundtrip|i-tag"), format!("i tag {itag} != hash_ref {href}"), json!({}));
                }
            }
        }
        // another package of the same user (for the foreign `i` tag)
        let other_i = with_mdk!(w.clients[b].mdk, x => x.create_key_package_for_event(&keys.public_key(), vec![relay(0)])).ok().and_then(|(_, t, _)| t.iter().find(|t| t.kind() == TagKind::i()).and_then(|t| t.content().map(|s| s.to_string())));
        let k = rng.below(24);
        let mut t2: Vec<Tag> = tags.clone();
        let mut c2 = content.clone();
        let mut kind = Kind::MlsKeyPackage;
        let mut signer = keys.clone();
        let replace = |t2: &mut Vec<Tag>, pred: &dyn Fn(&Tag) -> bool, new: Option<Tag>| {
            let pos = t2.iter().position(|t| pred(t));
            if let Some(p) = pos {
                match new {
                    Some(n) => t2[p] = n,
                    None => {
                        t2.remove(p);
                    }
                }
            }
        };
        let label: &str = match k {
            0 => {
                replace(&mut t2, &|t| t.as_slice()[0] == "encoding", None);
                "encoding-tag-missing"
            }
            1 => {
                replace(&mut t2, &|t| t.as_slice()[0] == "encoding", Some(Tag::custom(TagKind::Custom("encoding".into()), ["hex"])));
                "encoding-hex"
            }
            2 => {
                replace(&mut t2, &|t| t.kind() == TagKind::i(), other_i.clone().map(|v| Tag::custom(TagKind::i(), [v])));
                "i-tag-of-another-package"
            }
            3 => {
                replace(&mut t2, &|t| t.kind() == TagKind::i(), None);
                "i-tag-missing"
            }
            4 => {
                signer = Keys::generate();
                "signed-by-other-identity"
            }
            5 => {
                replace(&mut t2, &|t| t.kind() == TagKind::MlsProtocolVersion, Some(Tag::custom(TagKind::MlsProtocolVersion, ["2.0"])));
                "protocol-version-2.0"
            }
            6 => {
                replace(&mut t2, &|t| t.kind() == TagKind::MlsCiphersuite, Some(Tag::custom(TagKind::MlsCiphersuite, ["0x0002"])));
                "ciphersuite-0x0002"
            }
            7 => {
                replace(&mut t2, &|t| t.kind() == TagKind::MlsExtensions, Some(Tag::custom(TagKind::MlsExtensions, ["0x0001"])));
                "extensions-tag-wrong"
            }
            8 => {
                replace(&mut t2, &|t| t.kind() == TagKind::MlsExtensions, None);
                "extensions-tag-missing"
            }
            9 => {
                kind = Kind::TextNote;
                "wrong-kind"
            }
            10 => {
                let mut raw = B64.decode(c2.as_bytes()).unwrap_or_default();
                raw.extend_from_slice(b"TRAILING");
                c2 = B64.encode(&raw);
                "content-trailing-bytes"
            }
            11 => {
                c2 = format!("{}!!", &c2[..c2.len() - 2]);
                "content-not-base64"
            }
            22 | 23 => match non_canonical_base64(&c2, rng) {
                Some((l, v)) => {
                    c2 = v;
                    l
                }
                None => {
                    c2 = format!("{c2}=");
                    "content-base64-extra-padding"
                }
            },
            12 => {
                let raw = B64.decode(c2.as_bytes()).unwrap_or_default();
                c2 = B64.encode(&raw[..raw.len() / 2]);
                "content-truncated"
            }
            13 => {
                replace(&mut t2, &|t| t.kind() == TagKind::MlsProtocolVersion, None);
                "protocol-version-missing"
            }
            14 => {
                replace(&mut t2, &|t| t.kind() == TagKind::MlsCiphersuite, None);
                "ciphersuite-missing"
            }
            15 => {
                replace(&mut t2, &|t| t.kind() == TagKind::Relays, Some(Tag::custom(TagKind::Relays, ["not-a-url"])));
                "relays-invalid"
            }
            // near misses of the reference tag: the real reference cut short, prolonged, or off by one
            // hex digit / one bit
            16 | 17 | 18 | 19 => {
                let real = t2.iter().find(|t| t.kind() == TagKind::i()).and_then(|t| t.content().map(|s| s.to_string())).unwrap_or_default();
                let (v, l) = match k {
                    16 => (real[..2 * [1usize, 8, 16, 31][rng.below(4)].min(real.len() / 2)].to_string(), "i-tag-proper-prefix-of-the-reference"),
                    17 => (format!("{real}{}", hex::encode(&rng.bytes::<16>()[..1 + rng.below(16)])), "i-tag-reference-with-bytes-appended"),
                    18 => {
                        let mut raw = hex::decode(&real).unwrap_or_default();
                        if !raw.is_empty() {
                            let p = rng.below(raw.len());
                            raw[p] ^= 1 << rng.below(8);
                        }
                        (hex::encode(raw), "i-tag-one-bit-flipped")
                    }
                    _ => (String::new(), "i-tag-empty"),
                };
                replace(&mut t2, &|t| t.kind() == TagKind::i(), Some(Tag::custom(TagKind::i(), [v])));
                l
            }
            20 => {
                let real = t2.iter().find(|t| t.kind() == TagKind::MlsCiphersuite).and_then(|t| t.content().map(|s| s.to_string())).unwrap_or_default();
                let v = if rng.chance(50) { format!("{real}0") } else { real[..real.len().saturating_sub(1)].to_string() };
                replace(&mut t2, &|t| t.kind() == TagKind::MlsCiphersuite, Some(Tag::custom(TagKind::MlsCiphersuite, [v])));
                "ciphersuite-one-digit-more-or-less"
            }
            _ => {
                let real = t2.iter().find(|t| t.kind() == TagKind::MlsProtocolVersion).and_then(|t| t.content().map(|s| s.to_string())).unwrap_or_default();
                let v = if rng.chance(50) { format!("{real}0") } else { real[..real.len().saturating_sub(1)].to_string() };
                replace(&mut t2, &|t| t.kind() == TagKind::MlsProtocolVersion, Some(Tag::custom(TagKind::MlsProtocolVersion, [v])));
                "protocol-version-one-digit-more-or-less"
            }
        };
        let ev = EventBuilder::new(kind, c2).tags(t2).sign_with_keys(&signer).unwrap();
        let r = with_mdk!(w.clients[a].mdk, x => x.parse_key_package(&ev).map(|_| ()));
        out.count("key_package_mutations");
        out.note("key_package_cases", format!("{label} -> {}", if r.is_ok() { "accepted" } else { "refused" }));
        labels.push(label.to_string());
        if r.is_ok() {
            let pred = if label == "content-trailing-bytes" { "key-package-trailing-bytes-accepted" } else { "other" };
            out.violation(format!("{prop}|ambiguous-key-package-accepted|{label}|{pred}"), format!("parse_key_package accepted a key-package event with {label}"), json!({}));
        }
    }
    // ---- welcome rumors --------------------------------------------------------------------------
    for _ in 0..rng.range(3, 6) {
        let kp = w.clients[b].key_package_event();
        let apk = w.clients[a].pk();
        let conf = NostrGroupConfigData::new(format!("w{}", rng.next()), "d".into(), None, None, None, vec![relay(0)], vec![apk]);
        let Ok(res) = with_mdk!(w.clients[a].mdk, x => x.create_group(&apk, vec![kp], conf)) else { continue };
        let valid = res.welcome_rumors[0].clone();
        let mut r = valid.clone();
        let k = rng.below(16);
        let label: &str = match k {
            0 => {
                r.kind = Kind::MlsKeyPackage;
                "wrong-kind"
            }
            1 => {
                r.tags = Tags::from_list(r.tags.iter().filter(|t| t.kind() != TagKind::Relays).cloned().collect());
                "relays-tag-missing"
            }
            2 => {
                r.tags = Tags::from_list(r.tags.iter().filter(|t| t.kind() != TagKind::e()).cloned().collect());
                "e-tag-missing"
            }
            3 => {
                r.tags = Tags::from_list(r.tags.iter().filter(|t| t.as_slice()[0] != "encoding").cloned().collect());
                "encoding-tag-missing"
            }
            4 => {
                r.tags = Tags::from_list(r.tags.iter().map(|t| if t.as_slice()[0] == "encoding" { Tag::custom(TagKind::Custom("encoding".into()), ["hex"]) } else { t.clone() }).collect());
                "encoding-hex"
            }
            5 => {
                let mut raw = B64.decode(r.content.as_bytes()).unwrap_or_default();
                raw.extend_from_slice(b"TRAILING");
                r.content = B64.encode(&raw);
                "content-trailing-bytes"
            }
            6 => {
                let raw = B64.decode(r.content.as_bytes()).unwrap_or_default();
                r.content = B64.encode(&raw[..raw.len() / 2]);
                "content-truncated"
            }
            7 => {
                // a key package where a Welcome message is expected
                r.content = w.clients[b].key_package_event().content;
                "wrong-message-type"
            }
            8 => {
                r.content = format!("{}**", &r.content[..r.content.len() - 2]);
                "content-not-base64"
            }
            12 | 13 | 14 => match non_canonical_base64(&r.content.clone(), rng) {
                Some((l, v)) => {
                    r.content = v;
                    l
                }
                None => {
                    r.content = format!("{}=", r.content);
                    "content-base64-extra-padding"
                }
            },
            9 | 10 => {
                // the reference to the key-package event cut short or prolonged by one byte
                let real = r.tags.iter().find(|t| t.kind() == TagKind::e()).and_then(|t| t.content().map(|s| s.to_string())).unwrap_or_default();
                let v = if k == 9 { real[..real.len().saturating_sub(2)].to_string() } else { format!("{real}00") };
                r.tags = Tags::from_list(r.tags.iter().map(|t| if t.kind() == TagKind::e() { Tag::custom(TagKind::e(), [v.clone()]) } else { t.clone() }).collect());
                if k == 9 { "e-tag-31-bytes" } else { "e-tag-33-bytes" }
            }
            _ => "valid",
        };
        r.id = None;
        r.ensure_id();
        let wid = EventId::from_byte_array(rng.bytes::<32>());
        let res2 = with_mdk!(w.clients[b].mdk, x => x.process_welcome(&wid, &r));
        out.count("welcome_mutations");
        out.note("welcome_cases", format!("{label} -> {}", if res2.is_ok() { "accepted" } else { "refused" }));
        labels.push(format!("w:{label}"));
        match (label, res2) {
            ("valid", Err(e)) => out.violation(format!("{prop}|valid-welcome-refused|{}", error_variant(&e)), format!("{e}"), json!({})),
            ("valid", Ok(_)) => {}
            // the library never parses the value of the `e` tag (it only demands a non-empty one): a
            // malformed reference is not one of the things the property says are refused, and no
            // library state is derived from it -> information, not a violation (DESIGN 8.2 / 9.3)
            ("e-tag-31-bytes" | "e-tag-33-bytes", Ok(_)) => {
                if !out.info.iter().any(|x| x.starts_with("process_welcome accepts a welcome whose `e` tag")) {
                    out.info.push("process_welcome accepts a welcome whose `e` tag is not a 32-byte event id (the value is not parsed or used by the library)".into());
                }
            }
            (_, Ok(_)) => {
                let pred = if label == "content-trailing-bytes" { "welcome-trailing-bytes-accepted" } else { "other" };
                out.violation(format!("{prop}|ambiguous-welcome-accepted|{label}|{pred}"), format!("process_welcome accepted a welcome rumor with {label}"), json!({}));
            }
            _ => {}
        }
    }
    out.distinct.insert(crate::rng::fnv(labels.join("|").as_bytes()));
    if i < 8 && i % 4 == 2 {
        out.sample(json!({"kind": "key-package/welcome mutations", "cases": labels}), 6);
    }
    let _: Option<PublicKey> = None;
    w.cleanup();
}

/// (E) media tags.
fn imeta_roundtrip(prop: &str, i: u64, rng: &mut Rng, out: &mut Outcome, dir: &std::path::Path) {
    let mut w = World::empty(dir.to_path_buf(), format!("c15i-{i}"));
    let cfg = mdk_core::MdkConfig::default();
    let a = w.add_client(BackendKind::Memory, cfg.clone(), rng);
    let b = w.add_client(BackendKind::Memory, cfg.clone(), rng);
    let g = w.create_group(&[a, b], &[a], None, "media");
    let gid = w.gid(g);
    out.evaluations += 1;
    let mut labels = vec![];
    for _ in 0..rng.range(4, 8) {
        let (mime_in, canon): (&str, &str) = *rng.pick(&[
            ("application/pdf", "application/pdf"),
            ("Application/PDF", "application/pdf"),
            (" text/plain; charset=utf-8 ", "text/plain"),
            ("audio/mpeg", "audio/mpeg"),
            ("video/mp4;codecs=avc1", "video/mp4"),
            ("application/octet-stream", "application/octet-stream"),
            ("AUDIO/OGG", "audio/ogg"),
        ]);
        let fname: String = match rng.below(7) {
            5 => rng.pick(&["report.pdf ", " notes.pdf", "notes.pdf\u{3000}", "\u{a0}x.bin", "two  blanks.dat", "m image/png", "x 00ff.bin"]).to_string(),
            6 => format!(" lead-and-trail-{} ", rng.next() % 1000),
            0 => "a b c.pdf".into(),
            1 => "\u{1F980}-\u{65e5}\u{672c}.txt".into(),
            2 => format!("{}.bin", "n".repeat(200)),
            3 => "x".into(),
            _ => format!("file-{}.dat", rng.next()),
        };
        let n = rng.below(4000);
        let data = rng.vec(n);
        let up = with_mdk!(w.clients[a].mdk, x => x.media_manager(gid.clone()).encrypt_for_upload(&data, mime_in, &fname));
        let Ok(up) = up else {
            out.note("upload_refusals", format!("{mime_in} / {} chars", fname.chars().count()));
            continue;
        };
        let url = format!("https://blossom.example.com/{}", hex::encode(up.encrypted_hash));
        let tag = with_mdk!(w.clients[a].mdk, x => x.media_manager(gid.clone()).create_imeta_tag(&up, &url));
        let parsed = with_mdk!(w.clients[b].mdk, x => x.media_manager(gid.clone()).parse_imeta_tag(&tag));
        out.count("imeta_roundtrips");
        match parsed {
            Err(e) => {
                out.violation(format!("{prop}|valid-imeta-refused"), format!("{e}"), json!({"tag": tag.as_slice()}));
                continue;
            }
            Ok(r) => {
                if r.url != url || r.original_hash != up.original_hash || r.mime_type != canon || r.filename != fname || r.nonce != up.nonce || r.scheme_version != "mip04-v2" || r.dimensions != up.dimensions {
                    out.violation(format!("{prop}|imeta-roundtrip"), format!("parsed reference differs: mime {} vs {canon}, filename {:?} vs {:?}", r.mime_type, r.filename, fname), json!({"tag": tag.as_slice()}));
                    continue;
                }
            }
        }
        // single-field mutations
        let vals: Vec<String> = tag.as_slice().to_vec();
        let k = rng.below(11);
        let mutate = |key: &str, new: Option<String>| -> Vec<String> {
            let mut v = vec![];
            for s in &vals {
                if s.starts_with(&format!("{key} ")) {
                    if let Some(n) = &new {
                        v.push(format!("{key} {n}"));
                    }
                } else {
                    v.push(s.clone());
                }
            }
            v
        };
        let (label, v2): (&str, Vec<String>) = match k {
            0 => ("x-31-bytes", mutate("x", Some(hex::encode(&up.original_hash[..31])))),
            1 => ("x-not-hex", mutate("x", Some("zz".repeat(32)))),
            2 => ("x-missing", mutate("x", None)),
            3 => ("n-11-bytes", mutate("n", Some(hex::encode(&up.nonce[..11])))),
            4 => ("n-missing", mutate("n", None)),
            5 => ("v-unknown", mutate("v", Some("mip04-v9".into()))),
            6 => ("v-missing", mutate("v", None)),
            7 => ("m-unsupported", mutate("m", Some("application/x-msdownload".into()))),
            8 => ("filename-path-traversal", mutate("filename", Some("../../etc/passwd".into()))),
            9 => ("n-13-bytes", mutate("n", Some(hex::encode([up.nonce.to_vec(), vec![1]].concat())))),
            _ => ("x-33-bytes", mutate("x", Some(hex::encode([up.original_hash.to_vec(), vec![1]].concat())))),
        };
        let t2 = Tag::parse(v2).unwrap();
        let r = with_mdk!(w.clients[b].mdk, x => x.media_manager(gid.clone()).parse_imeta_tag(&t2));
        out.count("imeta_mutations");
        out.note("imeta_cases", format!("{label} -> {}", if r.is_ok() { "accepted" } else { "refused" }));
        labels.push(label.to_string());
        if r.is_ok() {
            out.violation(format!("{prop}|ambiguous-imeta-accepted|{label}"), format!("parse_imeta_tag accepted a tag with {label}"), json!({}));
        }
    }
    out.distinct.insert(crate::rng::fnv(labels.join("|").as_bytes()) ^ i);
    w.cleanup();
}

pub fn run(ctx: &Ctx) -> i32 {
    let dir = ctx.scratch_dir("c15");
    let n = ctx.budget(8000, 120_000) as u64;
    let out = crate::par::run(ctx, n, std::time::Duration::from_secs(ctx.tier.pick(80, 1200)), |i, rng, out| match i % 4 {
        0 => extension_roundtrip(&ctx.prop, i, rng, out, &dir),
        1 => extension_mutations(&ctx.prop, i, rng, out, &dir),
        2 => keypackage_and_welcome(&ctx.prop, i, rng, out, &dir),
        _ => imeta_roundtrip(&ctx.prop, i, rng, out, &dir),
    });
    let _ = std::fs::remove_dir_all(&dir);
    let floors = vec![
        Floor { what: "extension decodings checked", have: out.get("extension_decodings_checked"), need: 800 },
        Floor { what: "extension mutation trials", have: out.get("extension_mutation_trials"), need: 1500 },
        Floor { what: "key-package round trips", have: out.get("key_package_roundtrips"), need: 800 },
        Floor { what: "key-package mutations", have: out.get("key_package_mutations"), need: 800 },
        Floor { what: "welcome mutations", have: out.get("welcome_mutations"), need: 600 },
        Floor { what: "imeta round trips", have: out.get("imeta_roundtrips"), need: 800 },
        Floor { what: "image-field presence patterns (of 16)", have: out.sets.get("image_presence_patterns").map(|s| s.len()).unwrap_or(0) as u64, need: 16 },
    ];
    finish(
        ctx,
        "exploration",
        "(A) group-data extension: generated names/descriptions (empty, 255 / 2000 bytes, multi-byte, control characters), 0-3 relays, 1-2 admins, every presence pattern of the image fields through create_group and update_group_data; decoded with from_group at the creator, the committer, the receiver and the joiner (welcome preview + accepted group), compared with the intended value, with the mirrored record, and with an independent hand-written TLS reader (which must also re-encode to the same bytes). (B) forged extension bytes inside OpenMLS welcomes: versions 1,2,3,7,255,256,4096,65535 must round-trip; trailing bytes, wrong fixed lengths, non-UTF-8, bad relay URL, version 0, truncated, admins not a multiple of 32, non-minimal length prefix, empty must be refused. (C) key-package events: create -> sign -> parse (identity = author, i tag = hash_ref) and 16 single-field mutations. (D) welcome rumors: 9 mutations. (E) imeta tags: create -> parse over MIME spellings and file names, 10 single-field mutations. distinct = distinct case sequences",
        out,
        floors,
        vec!["encoding value `BASE64` (upper case) is a base64 tag and is not judged; duplicated tags are not in the property's list and are not judged".into()],
        json!({}),
    )
}
