//! C16 - invitations are idempotent, consent-gated and cannot disturb existing groups.

use std::collections::BTreeMap;

use mdk_core::MDK;
use mdk_core::prelude::*;
use mdk_memory_storage::MdkMemoryStorage;
use nostr::base64::Engine;
use nostr::base64::engine::general_purpose::STANDARD as B64;
use nostr::{Event, EventBuilder, EventId, Keys, Kind, Tag, TagKind, UnsignedEvent};
use openmls::prelude::*;
// explicit import: both preludes export a `GroupId` (glob ambiguity is an error on nightly)
use mdk_storage_traits::GroupId;
use openmls_basic_credential::SignatureKeyPair;
use serde_json::json;
use tls_codec::Serialize as _;

use super::c06::{client_snapshot, snapshot_diff};
use crate::report::{Ctx, Floor, Outcome, finish};
use crate::rng::Rng;
use crate::sim::adversary as adv;
use crate::sim::gdext::GdRaw;
use crate::sim::scenario::*;
use crate::sim::*;
use crate::with_mdk;

fn welcome_repr(w: &welcome_types::Welcome) -> String {
    format!(
        "{}|g={}|nid={}|name={:?}|desc={:?}|admins={}|relays={}|by={}|n={}|{:?}",
        w.id.to_hex(),
        hex::encode(w.mls_group_id.as_slice()),
        hex::encode(w.nostr_group_id),
        w.group_name,
        w.group_description,
        w.group_admin_pubkeys.len(),
        w.group_relays.len(),
        w.welcomer.to_hex(),
        w.member_count,
        w.state
    )
}

/// Forge a welcome for `kp_event` (recipient's key-package event) into a throw-away MLS group with
/// a chosen group id and chosen group-data extension bytes. `author` signs nothing (rumor).
pub fn forge_welcome(kp_event: &Event, group_id: &[u8], gd_bytes: Vec<u8>, claimed_sender: nostr::PublicKey, rng: &mut Rng) -> Option<UnsignedEvent> {
    let evil: MDK<MdkMemoryStorage> = MDK::new(MdkMemoryStorage::default());
    let kp = evil.parse_key_package(kp_event).ok()?;
    let sig = SignatureKeyPair::new(SignatureScheme::ED25519).ok()?;
    sig.store(evil.provider.storage()).ok()?;
    let cred = BasicCredential::new(claimed_sender.to_bytes().to_vec());
    let cwk = CredentialWithKey { credential: cred.into(), signature_key: sig.public().into() };
    let req = Extension::RequiredCapabilities(RequiredCapabilitiesExtension::new(&[ExtensionType::Unknown(0xF2EE)], &[], &[]));
    let exts = Extensions::from_vec(vec![Extension::Unknown(0xF2EE, UnknownExtension(gd_bytes)), req]).ok()?;
    let caps = kp.leaf_node().capabilities().clone();
    let cfg = MlsGroupCreateConfig::builder().ciphersuite(kp.ciphersuite()).use_ratchet_tree_extension(true).capabilities(caps).with_group_context_extensions(exts).build();
    let mut grp = MlsGroup::new_with_group_id(&evil.provider, &sig, &cfg, openmls::group::GroupId::from_slice(group_id), cwk).ok()?;
    let (_c, welcome, _gi) = grp.add_members(&evil.provider, &sig, &[kp]).ok()?;
    let bytes = welcome.tls_serialize_detached().ok()?;
    let _ = rng;
    let mut rumor = EventBuilder::new(Kind::MlsWelcome, B64.encode(&bytes))
        .tags(vec![Tag::from_standardized(nostr::TagStandard::Relays(vec![relay(3)])), Tag::event(kp_event.id), Tag::custom(TagKind::Custom("encoding".into()), ["base64"])])
        .build(claimed_sender);
    rumor.ensure_id();
    Some(rumor)
}

struct Setup {
    w: World,
    /// existing group of the recipient (with honest member h)
    e: usize,
    r: usize,
    h: usize,
    inviter: usize,
    /// the inviter's group
    gi: usize,
    other_member: usize,
}

fn setup(rng: &mut Rng, dir: &std::path::Path, tag: &str, backend: BackendKind) -> Setup {
    let mut w = World::empty(dir.to_path_buf(), tag.to_string());
    let cfg = mdk_core::MdkConfig::default();
    let h = w.add_client(BackendKind::Memory, cfg.clone(), rng);
    let r = w.add_client(backend, cfg.clone(), rng);
    let inviter = w.add_client(BackendKind::Memory, cfg.clone(), rng);
    let x = w.add_client(BackendKind::Memory, cfg.clone(), rng);
    let e = w.create_group(&[h, r], &[h], None, "existing");
    let gi = w.create_group(&[inviter, x], &[inviter], None, "inviting");
    w.t += 3;
    let m = w.act_message(h, e, w.base_ts).unwrap();
    w.deliver(r, m, OwnMode::Echo);
    Setup { w, e, r, h, inviter, gi, other_member: x }
}

/// E must still work: next message and next commit of h are processed by r.
fn existing_group_alive(s: &mut Setup, rng: &mut Rng) -> Result<(), String> {
    let (e, r, h) = (s.e, s.r, s.h);
    s.w.t += 1;
    let Some(m) = s.w.act_message(h, e, s.w.base_ts) else { return Err("honest member cannot send".into()) };
    let d = s.w.deliver(r, m, OwnMode::Echo);
    if d.class != "ApplicationMessage" {
        return Err(format!("next message -> {}", d.class));
    }
    let t = s.w.t;
    let Some(c) = s.w.act_commit(h, e, &CommitKind::SelfUpdate, t, OwnMode::Immediate, 0, rng) else { return Err("honest member cannot commit".into()) };
    let d = s.w.deliver(r, c, OwnMode::Echo);
    if d.class != "Commit" || !d.changed() {
        return Err(format!("next commit -> {}", d.class));
    }
    Ok(())
}

pub fn trial(prop: &str, i: u64, rng: &mut Rng, out: &mut Outcome, dir: &std::path::Path) {
    let backend = if i % 6 == 0 { BackendKind::Sqlite } else { BackendKind::Memory };
    let mut s = setup(rng, dir, &format!("c16-{i}"), backend);
    out.evaluations += 1;
    let r = s.r;
    let e_gid = s.w.gid(s.e);
    let mut labels: Vec<String> = vec![];
    let mut fail = |out: &mut Outcome, sig: String, detail: String, s: &Setup| {
        out.violation(sig, detail, json!({"kind": "c16", "scenario": i, "trace": trace_tail(&s.w, 30)}));
    };
    let n = rng.range(4, 8);
    // the valid invitation, created once; may be used by several steps
    let kp_r = s.w.clients[r].key_package_event();
    let gi_gid = s.w.gid(s.gi);
    mdk_core::verif::set_created_at(Some(s.w.t));
    let add = with_mdk!(s.w.clients[s.inviter].mdk, x => x.add_members(&gi_gid, &[kp_r.clone()]));
    let Ok(add) = add else { return };
    let _ = with_mdk!(s.w.clients[s.inviter].mdk, x => x.merge_pending_commit(&gi_gid));
    let valid_rumor = add.welcome_rumors.clone().unwrap()[0].clone();
    let wid1 = EventId::from_byte_array(rng.bytes::<32>());
    let mut valid_state = 0; // 0 = not processed, 1 = pending, 2 = accepted, 3 = declined
    let mut gi_polluted = false;
    // clean regime (3 of 4 trials): no forged invitation names an MLS group id the recipient
    // holds as Active (known finding) - everything else is explored there without being cut short
    let dirty = i % 4 == 0;
    for _ in 0..n {
        let before = client_snapshot(&s.w, r);
        let e_before = s.w.clients[r].fp(&e_gid);
        let k = rng.below(12);
        let label: String;
        match k {
            0..=2 => {
                // (re-)process the valid invitation under the same or a fresh wrapper id
                let fresh = k == 2;
                let wid = if fresh { EventId::from_byte_array(rng.bytes::<32>()) } else { wid1 };
                let pre_welcome = with_mdk!(s.w.clients[r].mdk, x => x.get_welcome(&valid_rumor.id.unwrap()).ok().flatten());
                let res = with_mdk!(s.w.clients[r].mdk, x => x.process_welcome(&wid, &valid_rumor));
                label = format!("valid:{}:{}", if fresh { "fresh-wrapper" } else { "same-wrapper" }, ["first", "while-pending", "after-accept", "after-decline"][valid_state]);
                out.note("results", format!("{label} -> {}", res.as_ref().map(|w| format!("{:?}", w.state)).unwrap_or_else(|e| format!("Err({})", error_variant(e)))));
                match (&res, &pre_welcome) {
                    (Ok(wl), Some(pre)) => {
                        // same invitation again => the same stored welcome (wrapper id aside)
                        let mut a = pre.clone();
                        let mut b = wl.clone();
                        a.wrapper_event_id = EventId::all_zeros();
                        b.wrapper_event_id = EventId::all_zeros();
                        if welcome_repr(&a) != welcome_repr(&b) {
                            let (ra, rb) = (welcome_repr(&a), welcome_repr(&b));
                            let fa: Vec<&str> = ra.split('|').collect();
                            let fb: Vec<&str> = rb.split('|').collect();
                            let diff: Vec<String> = fa.iter().zip(fb.iter()).filter(|(x, y)| x != y).map(|(x, y)| format!("{x} -> {y}")).collect();
                            let pred = if diff.len() == 1 && diff[0].ends_with("-> Pending") { "state-reset-to-pending" } else { "other" };
                            fail(out, format!("{prop}|reprocessing-returned-different-welcome|{}|{pred}", if fresh { "fresh-wrapper" } else { "same-wrapper" }), format!("{label}: stored welcome vs returned welcome differ in {:?}", diff), &s);
                            break;
                        }
                        let after = client_snapshot(&s.w, r);
                        if gi_polluted {
                            // a forged invitation for the same MLS group id was processed in between;
                            // its effect on the pending record is judged where it happened
                        } else if let Some((which, parts)) = snapshot_diff(&before, &after) {
                            let pred = if valid_state == 2 { "replay-after-accept-resets-group" } else { "other" };
                            fail(out, format!("{prop}|reprocessing-changed-state|{}|{pred}", if fresh { "fresh-wrapper" } else { "same-wrapper" }), format!("{label}: {which} changed in {:?}: `{}` -> `{}`", parts, crate::util::short(&before[&which].rec, 160), crate::util::short(&after[&which].rec, 160)), &s);
                            break;
                        }
                        out.count("idempotence_checks");
                    }
                    (Ok(_), None) => {
                        if valid_state == 0 {
                            valid_state = 1;
                        }
                        // merely received: must not be Active
                        let st = s.w.clients[r].group_state(&gi_gid);
                        if st == Some(group_types::GroupState::Active) {
                            fail(out, format!("{prop}|active-without-consent"), format!("{label}: group Active after process_welcome only"), &s);
                            break;
                        }
                        out.count("consent_checks");
                    }
                    (Err(_), _) => {
                        let after = client_snapshot(&s.w, r);
                        if let Some((which, parts)) = snapshot_diff(&before, &after) {
                            fail(out, format!("{prop}|failed-invitation-changed-state|{}", if fresh { "fresh-wrapper" } else { "same-wrapper" }), format!("{label}: refused but {which} changed {:?}", parts), &s);
                            break;
                        }
                    }
                }
            }
            3 => {
                // accept
                label = format!("accept:{}", ["unprocessed", "pending", "accepted", "declined"][valid_state]);
                if valid_state != 1 {
                    labels.push(label);
                    continue;
                }
                let wl = with_mdk!(s.w.clients[r].mdk, x => x.get_welcome(&valid_rumor.id.unwrap()).ok().flatten());
                let Some(wl) = wl else { continue };
                let res = with_mdk!(s.w.clients[r].mdk, x => x.accept_welcome(&wl));
                if res.is_ok() {
                    valid_state = 2;
                    // joiner == inviter post-commit state
                    let jf = s.w.clients[r].fp(&gi_gid);
                    let inf = s.w.clients[s.inviter].fp(&gi_gid);
                    out.count("join_state_comparisons");
                    if jf.mls != inf.mls || jf.mem != inf.mem || jf.gd != inf.gd || jf.rel != inf.rel || jf.rec_mirror() != inf.rec_mirror() {
                        let mut parts = vec![];
                        if jf.mls != inf.mls { parts.push(format!("MLS `{}` vs `{}`", jf.mls, inf.mls)); }
                        if jf.mem != inf.mem { parts.push("MEM".to_string()); }
                        if jf.gd != inf.gd { parts.push("GD".to_string()); }
                        if jf.rel != inf.rel { parts.push(format!("REL `{}` vs `{}`", jf.rel, inf.rel)); }
                        if jf.rec_mirror() != inf.rec_mirror() { parts.push(format!("REC `{}` vs `{}`", jf.rec_mirror(), inf.rec_mirror())); }
                        fail(out, format!("{prop}|joiner-state-differs-from-inviter|{}", if gi_polluted { "after-forged-invitation-for-same-mls-id" } else { "clean" }), format!("{}", parts.join(" ; ")), &s);
                        break;
                    }
                    if jf.su != "Required" || s.w.clients[r].group_state(&gi_gid) != Some(group_types::GroupState::Active) {
                        fail(out, format!("{prop}|no-self-update-obligation-or-not-active"), format!("after accept: su={} state={:?}", jf.su, s.w.clients[r].group_state(&gi_gid)), &s);
                        break;
                    }
                    // and the group works: a message of the inviter is readable
                    s.w.groups[s.gi].invited.insert(r);
                    if let Some(st) = s.w.clients[r].state(s.gi, &gi_gid) {
                        s.w.clients[r].reached.insert(st);
                    }
                    let t0 = s.w.base_ts;
                    if let Some(m) = s.w.act_message(s.inviter, s.gi, t0) {
                        let d = s.w.deliver(r, m, OwnMode::Echo);
                        if d.class != "ApplicationMessage" {
                            fail(out, format!("{prop}|joined-group-cannot-read|result={}", d.class), "joiner cannot read the inviter's next message".into(), &s);
                            break;
                        }
                    }
                }
            }
            4 => {
                label = format!("decline:{}", ["unprocessed", "pending", "accepted", "declined"][valid_state]);
                if valid_state != 1 {
                    labels.push(label);
                    continue;
                }
                let wl = with_mdk!(s.w.clients[r].mdk, x => x.get_welcome(&valid_rumor.id.unwrap()).ok().flatten());
                let Some(wl) = wl else { continue };
                if with_mdk!(s.w.clients[r].mdk, x => x.decline_welcome(&wl)).is_ok() {
                    valid_state = 3;
                    if s.w.clients[r].group_state(&gi_gid) == Some(group_types::GroupState::Active) {
                        fail(out, format!("{prop}|declined-but-active"), "group Active after decline".into(), &s);
                        break;
                    }
                    out.count("consent_checks");
                }
            }
            _ => {
                // ---- adversarial invitations --------------------------------------------------------
                let who = rng.below(3); // 0 = current member of E (h), 1 = outsider, 2 = the inviter (member of GI)
                let sender_pk = match who {
                    0 => s.w.clients[s.h].pk(),
                    1 => Keys::generate().public_key(),
                    _ => s.w.clients[s.inviter].pk(),
                };
                let kp2 = s.w.clients[r].key_package_event();
                let e_raw = with_mdk!(s.w.clients[s.h].mdk, x => adv::group_data_raw(x, &e_gid)).unwrap();
                let mut gd = GdRaw::decode(&e_raw).unwrap();
                let mut variant = k - 5; // 0..6
                if !dirty && (variant <= 1 || (variant == 4 && valid_state == 2)) {
                    variant = 2 + rng.below(5);
                    if variant == 4 && valid_state == 2 {
                        variant = 3;
                    }
                }
                let (vl, target_gid): (&str, Vec<u8>) = match variant {
                    0 => ("same-mls-id-same-data", e_gid.as_slice().to_vec()),
                    1 => {
                        gd.name = b"hijacked".to_vec();
                        gd.admins = vec![sender_pk.to_bytes()];
                        gd.nostr_group_id = rng.bytes::<32>();
                        ("same-mls-id-foreign-data", e_gid.as_slice().to_vec())
                    }
                    2 => {
                        // new MLS group that claims the existing group's nostr id
                        gd.admins = vec![sender_pk.to_bytes()];
                        ("new-mls-id-existing-nostr-id", rng.vec(16))
                    }
                    3 => {
                        gd.nostr_group_id = rng.bytes::<32>();
                        gd.admins = vec![sender_pk.to_bytes()];
                        gd.name = b"fresh".to_vec();
                        ("new-group-benign", rng.vec(16))
                    }
                    4 => {
                        // the MLS group id of the inviter's group (pending / accepted / declined there)
                        gd.nostr_group_id = rng.bytes::<32>();
                        gd.admins = vec![sender_pk.to_bytes()];
                        ("mls-id-of-invited-group", gi_gid.as_slice().to_vec())
                    }
                    5 => {
                        gd.nostr_group_id = rng.bytes::<32>();
                        gd.admins = vec![sender_pk.to_bytes()];
                        ("rumor-id-of-earlier-welcome", rng.vec(16))
                    }
                    _ => {
                        gd.version = 0;
                        ("new-group-version-0", rng.vec(16))
                    }
                };
                let Some(mut rumor) = forge_welcome(&kp2, &target_gid, gd.encode(), sender_pk, rng) else {
                    labels.push(format!("forge-failed:{vl}"));
                    continue;
                };
                if vl == "rumor-id-of-earlier-welcome" {
                    if valid_state == 0 {
                        labels.push("skip".into());
                        continue;
                    }
                    rumor.id = valid_rumor.id;
                }
                label = format!("forged:{}:by-{}:valid-is-{}", vl, ["member-of-existing", "outsider", "inviter"][who], ["unprocessed", "pending", "accepted", "declined"][valid_state]);
                let pre_valid = with_mdk!(s.w.clients[r].mdk, x => x.get_welcome(&valid_rumor.id.unwrap()).ok().flatten()).map(|w| welcome_repr(&w));
                let wid = EventId::from_byte_array(rng.bytes::<32>());
                let res = with_mdk!(s.w.clients[r].mdk, x => x.process_welcome(&wid, &rumor));
                if let Err(e) = &res {
                    crate::capture::error("process_welcome", e);
                }
                for gi in 0..s.w.groups.len() {
                    s.w.learn_secrets(r, gi);
                }
                out.count("adversarial_invitations");
                if vl == "mls-id-of-invited-group" && res.is_ok() {
                    gi_polluted = true;
                }
                out.note("results", format!("forged:{vl} -> {}", res.as_ref().map(|w| format!("{:?}", w.state)).unwrap_or_else(|e| format!("Err({})", error_variant(e)))));
                // existing ACTIVE groups must be untouched
                let e_after = s.w.clients[r].fp(&e_gid);
                if e_after != e_before {
                    let parts = e_before.diff(&e_after);
                    // history-derived predicate: the forged welcome names this very MLS group id,
                    // was accepted by process_welcome, and what changed is the stored record /
                    // relays (rewritten as a Pending group) - nothing of the MLS state
                    let pred = if target_gid == e_gid.as_slice() && res.is_ok() && parts.iter().all(|p| ["REC", "REL", "SU"].contains(p)) && e_after.rec.contains("state=Pending") { "welcome-overwrites-active-group-record" } else { "unexplained" };
                    fail(
                        out,
                        format!("{prop}|invitation-modified-active-group|{pred}"),
                        format!("{label}: the recipient's active group changed in {:?}: `{}` -> `{}`", parts, crate::util::short(e_before.part(parts[0]), 200), crate::util::short(e_after.part(parts[0]), 200)),
                        &s,
                    );
                    break;
                }
                if valid_state == 2 {
                    // the accepted group is an active group too
                    let gfp_b = &before[&format!("g{}", s.gi)];
                    let gfp_a = s.w.clients[r].fp(&gi_gid);
                    if *gfp_b != gfp_a {
                        let parts = gfp_b.diff(&gfp_a);
                        let pred = if target_gid == gi_gid.as_slice() && res.is_ok() && parts.iter().all(|p| ["REC", "REL", "SU"].contains(p)) && gfp_a.rec.contains("state=Pending") { "welcome-overwrites-active-group-record" } else { "unexplained" };
                        fail(out, format!("{prop}|invitation-modified-active-group|{pred}"), format!("{label}: the accepted group changed in {:?}", parts), &s);
                        break;
                    }
                }
                // an earlier stored welcome must not be replaced
                let post_valid = with_mdk!(s.w.clients[r].mdk, x => x.get_welcome(&valid_rumor.id.unwrap()).ok().flatten()).map(|w| welcome_repr(&w));
                if pre_valid.is_some() && pre_valid != post_valid {
                    fail(out, format!("{prop}|stored-welcome-replaced|{vl}|welcome-rumor-id-collision"), format!("{label}: stored welcome `{:?}` became `{:?}`", pre_valid, post_valid), &s);
                    break;
                }
                if res.is_err() {
                    let after = client_snapshot(&s.w, r);
                    if let Some((which, parts)) = snapshot_diff(&before, &after) {
                        fail(out, format!("{prop}|failed-invitation-changed-state|forged:{vl}"), format!("{label}: refused but {which} changed {:?}", parts), &s);
                        break;
                    }
                }
            }
        }
        labels.push(label.clone());
        out.note("cases", label.clone());
        // follow-up: the existing group still works
        if rng.chance(50) {
            if let Err(e) = existing_group_alive(&mut s, rng) {
                fail(out, format!("{prop}|existing-group-broken-after-invitation|{}", label.split(':').take(2).collect::<Vec<_>>().join(":")), format!("after {label}: {e}"), &s);
                break;
            }
            out.count("followup_probes");
        }
    }
    out.distinct.insert(crate::rng::fnv(labels.join("|").as_bytes()));
    if i < 2 {
        out.sample(json!({"scenario": i, "steps": labels}), 3);
    }
    let _ = s.other_member;
    s.w.cleanup();
}

/// Second family: an EX-member is invited again into the group it was removed from (or left). Its
/// storage still holds the Inactive record of the earlier membership - with a completed
/// self-update, the old epoch, old relays, an old last-message pointer. After accepting the new
/// invitation it must be exactly where a first-time joiner would be: Active, in the inviter's state,
/// with the obligation to rotate its key pending again, listed by `groups_needing_self_update`.
pub fn reinvite_trial(prop: &str, i: u64, rng: &mut Rng, out: &mut Outcome, dir: &std::path::Path) {
    let backend = if i % 2 == 0 { BackendKind::Sqlite } else { BackendKind::Memory };
    let mut w = World::empty(dir.to_path_buf(), format!("c16r-{i}"));
    let cfg = mdk_core::MdkConfig::default();
    let a = w.add_client(BackendKind::Memory, cfg.clone(), rng);
    let r = w.add_client(backend, cfg.clone(), rng);
    let x = w.add_client(BackendKind::Memory, cfg.clone(), rng);
    // the ex-member-to-be is sometimes the creator of the group (its record never was `Required`)
    let r_creates = rng.chance(25);
    let g = if r_creates { w.create_group(&[r, a, x], &[r, a], None, "reinvite") } else { w.create_group(&[a, r, x], &[a], None, "reinvite") };
    let gid = w.gid(g);
    out.evaluations += 1;
    let mut labels = vec![format!("backend={backend:?}"), format!("creator={r_creates}")];
    let fail = |out: &mut Outcome, sig: String, detail: String, w: &World| {
        out.violation(sig, detail, json!({"kind": "c16-reinvite", "scenario": i, "trace": trace_tail(w, 30)}));
    };
    let everyone = [a, r, x];
    let broadcast = |w: &mut World, idx: usize| {
        let author = w.log[idx].author;
        for c in everyone {
            if c != author {
                w.deliver(c, idx, OwnMode::Echo);
            }
        }
    };
    // earlier life: messages, and (usually) r completes a self-update
    for _ in 0..rng.range(1, 3) {
        w.t += 2;
        let ts = w.base_ts;
        if let Some(m) = w.act_message(*rng.pick(&[a, r, x]), g, ts) {
            broadcast(&mut w, m);
        }
    }
    let rotated = rng.chance(75);
    if rotated {
        w.t += 2;
        let t = w.t;
        if let Some(c) = w.act_commit(r, g, &CommitKind::SelfUpdate, t, OwnMode::Immediate, 0, rng) {
            broadcast(&mut w, c);
        }
    }
    labels.push(format!("rotated-before={rotated}"));
    let su_before = w.clients[r].fp(&gid).su.clone();
    // r goes: removed by the admin, or leaves (the admin commits the leave)
    w.t += 2;
    let leaves = rng.chance(40) && !r_creates;
    let removal = if leaves {
        w.act_leave(r, g).and_then(|p| {
            // the admin commits the leave and merges at once
            let d = w.deliver(a, p, OwnMode::Immediate);
            w.deliver(x, p, OwnMode::Echo);
            d.produced
        })
    } else {
        let rpk = w.clients[r].pk();
        let at = w.clients[a].state(g, &gid).unwrap();
        mdk_core::verif::set_created_at(Some(w.t));
        with_mdk!(w.clients[a].mdk, m => m.remove_members(&gid, &[rpk])).ok().map(|u| {
            let idx = w.log.len();
            w.log.push(Pub { ev: u.evolution_event, kind: PubKind::Commit, author: a, g, at, refs: vec![], what: "remove r".into(), rumor: None, mode: OwnMode::Immediate, welcomes: vec![], adversarial: false });
            w.clients[a].pending_own.insert(g, idx);
            w.act_merge(a, g);
            idx
        })
    };
    labels.push(if leaves { "left".into() } else { "removed".into() });
    let Some(removal) = removal else {
        out.note("reinvite_cases", format!("{} -> removal not produced", labels.join(",")));
        w.cleanup();
        return;
    };
    broadcast(&mut w, removal);
    if w.clients[r].group_state(&gid) != Some(group_types::GroupState::Inactive) {
        out.note("reinvite_cases", format!("{} -> r did not become Inactive", labels.join(",")));
        w.cleanup();
        return;
    }
    // the group moves on without r
    for _ in 0..rng.below(3) {
        w.t += 2;
        let t = w.t;
        let kind = rng.pick(&[CommitKind::SelfUpdate, CommitKind::Rename, CommitKind::Relays]).clone();
        if let Some(c) = w.act_commit(a, g, &kind, t, OwnMode::Immediate, rng.next() % 1000, rng) {
            w.deliver(x, c, OwnMode::Echo);
            w.deliver(r, c, OwnMode::Echo);
        }
    }
    // ... and invites r again
    w.t += 2;
    let kp = w.clients[r].key_package_event();
    mdk_core::verif::set_created_at(Some(w.t));
    let at = w.clients[a].state(g, &gid).unwrap();
    let Ok(u) = with_mdk!(w.clients[a].mdk, m => m.add_members(&gid, &[kp])) else {
        out.note("reinvite_cases", format!("{} -> add_members refused", labels.join(",")));
        w.cleanup();
        return;
    };
    let idx = w.log.len();
    let rumor = u.welcome_rumors.clone().unwrap()[0].clone();
    w.log.push(Pub { ev: u.evolution_event, kind: PubKind::Commit, author: a, g, at, refs: vec![], what: "re-add r".into(), rumor: None, mode: OwnMode::Immediate, welcomes: vec![(r, rumor.clone())], adversarial: false });
    w.clients[a].pending_own.insert(g, idx);
    w.act_merge(a, g);
    w.deliver(x, idx, OwnMode::Echo);
    let wid = EventId::from_byte_array(rng.bytes::<32>());
    let wl = match with_mdk!(w.clients[r].mdk, m => m.process_welcome(&wid, &rumor)) {
        Ok(wl) => wl,
        Err(e) => {
            fail(out, format!("{prop}|reinvited-ex-member|welcome-refused|{}", error_variant(&e)), format!("{}: process_welcome: {e}", labels.join(",")), &w);
            w.cleanup();
            return;
        }
    };
    out.count("reinvitations_processed");
    // consent gate: nothing is Active before accept
    if w.clients[r].group_state(&gid) == Some(group_types::GroupState::Active) {
        fail(out, format!("{prop}|reinvited-ex-member|active-before-accept"), labels.join(","), &w);
        w.cleanup();
        return;
    }
    if let Err(e) = with_mdk!(w.clients[r].mdk, m => m.accept_welcome(&wl)) {
        fail(out, format!("{prop}|reinvited-ex-member|accept-refused|{}", error_variant(&e)), format!("{}: {e}", labels.join(",")), &w);
        w.cleanup();
        return;
    }
    let jf = w.clients[r].fp(&gid);
    let inf = w.clients[a].fp(&gid);
    out.count("join_state_comparisons");
    out.count("reinvited_ex_members_compared");
    let mut parts = vec![];
    if jf.mls != inf.mls { parts.push("MLS"); }
    if jf.mem != inf.mem { parts.push("MEM"); }
    if jf.gd != inf.gd { parts.push("GD"); }
    if jf.rel != inf.rel { parts.push("REL"); }
    if jf.rec_mirror() != inf.rec_mirror() { parts.push("REC"); }
    let case = format!("{} su-before={}", labels.join(","), su_before.split('(').next().unwrap_or(""));
    out.note("reinvite_cases", format!("{case} -> su-after={}", jf.su.split('(').next().unwrap_or("")));
    if !parts.is_empty() {
        fail(out, format!("{prop}|reinvited-ex-member|joiner-state-differs-from-inviter|parts={}", parts.join("+")), format!("{case}: REC `{}` vs `{}`; REL `{}` vs `{}`", jf.rec_mirror(), inf.rec_mirror(), jf.rel, inf.rel), &w);
        w.cleanup();
        return;
    }
    let listed = with_mdk!(w.clients[r].mdk, m => m.groups_needing_self_update(0)).map(|v| v.contains(&gid)).unwrap_or(false);
    if jf.su != "Required" || !listed || w.clients[r].group_state(&gid) != Some(group_types::GroupState::Active) {
        fail(out, format!("{prop}|reinvited-ex-member|no-self-update-obligation-or-not-active|backend={backend:?}"), format!("{case}: after accept su={} listed-by-groups_needing_self_update={listed} state={:?}", jf.su, w.clients[r].group_state(&gid)), &w);
        w.cleanup();
        return;
    }
    // and the group works again for r
    if let Some(st) = w.clients[r].state(g, &gid) {
        w.clients[r].reached.insert(st);
    }
    let ts = w.base_ts;
    if let Some(m) = w.act_message(a, g, ts) {
        let d = w.deliver(r, m, OwnMode::Echo);
        if d.class != "ApplicationMessage" {
            fail(out, format!("{prop}|reinvited-ex-member|joined-group-cannot-read|result={}", d.class), case.clone(), &w);
        }
    }
    out.distinct.insert(crate::rng::fnv(case.as_bytes()) ^ i);
    w.cleanup();
}

pub fn run(ctx: &Ctx) -> i32 {
    let dir = ctx.scratch_dir("c16");
    let n = ctx.budget(4000, 60_000) as u64;
    let out = crate::par::run(ctx, n, std::time::Duration::from_secs(ctx.tier.pick(60, 900)), |i, rng, out| if i % 5 == 4 { reinvite_trial(&ctx.prop, i, rng, out, &dir) } else { trial(&ctx.prop, i, rng, out, &dir) });
    let _ = std::fs::remove_dir_all(&dir);
    let floors = vec![
        Floor { what: "adversarial invitations", have: out.get("adversarial_invitations"), need: 800 },
        Floor { what: "idempotence checks", have: out.get("idempotence_checks"), need: 150 },
        Floor { what: "join-state comparisons", have: out.get("join_state_comparisons"), need: 80 },
        Floor { what: "re-invited ex-members compared with their inviter", have: out.get("reinvited_ex_members_compared"), need: 200 },
        Floor { what: "distinct cases", have: out.sets.get("cases").map(|s| s.len()).unwrap_or(0) as u64, need: 40 },
    ];
    let _: BTreeMap<u8, u8> = BTreeMap::new();
    finish(
        ctx,
        "exploration",
        "(second family, one trial in five) an ex-member - removed or left, with or without a completed self-update, sometimes the creator of the group, on memory or SQLite - is invited again after the group moved on: nothing is Active before accept; after accept it is in the inviter's state, the obligation is Required again and groups_needing_self_update lists the group, and it reads the inviter's next message. (first family) a recipient that already is an active member of one group receives a valid invitation to a second group (processed under the same and under fresh wrapper ids, before / while pending / after accept / after decline, then accepted or declined) interleaved with forged invitations built with OpenMLS by a member of its existing group, by the inviter and by an outsider: for the MLS group id it already holds (same or foreign group data), for a new MLS id claiming its existing nostr id, for the invited group's MLS id, with the rumor id of an earlier stored welcome, with extension version 0. Oracle: re-processing returns the same stored welcome and changes nothing; no group is Active without accept_welcome; after accept the joiner's MLS state / members / group data / relays equal the inviter's and the self-update obligation is Required; no invitation changes the fingerprint of an Active group, and that group still processes its next message and commit; a stored welcome is never replaced by another invitation",
        out,
        floors,
        vec!["wrapper_event_id of the stored welcome is not compared when the same rumor arrives under a fresh wrapper id".into()],
        json!({}),
    )
}
