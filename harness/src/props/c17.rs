//! C17 - media and group-image encryption round-trips, is tamper-evident, outlives epochs.

use std::collections::{BTreeMap, BTreeSet};

use mdk_core::encrypted_media::crypto::derive_encryption_key;
use mdk_core::encrypted_media::types::{EncryptedMediaUpload, MediaReference};
use mdk_core::extension::group_image::{decrypt_group_image, prepare_group_image_for_upload};
use mdk_core::prelude::*;
use mdk_storage_traits::Secret;
use nostr::{EventBuilder, Kind, Tag, Timestamp, UnsignedEvent};
use serde_json::json;
use sha2::{Digest, Sha256};

use crate::report::{Ctx, Floor, Outcome, finish};
use crate::rng::Rng;
use crate::sim::scenario::*;
use crate::sim::*;
use crate::with_mdk;

fn make_image(rng: &mut Rng, fmt: &str) -> Vec<u8> {
    use image::{ImageBuffer, Rgb};
    let (w, h) = (8 + rng.below(24) as u32, 8 + rng.below(24) as u32);
    let seed = rng.next();
    let img: ImageBuffer<Rgb<u8>, Vec<u8>> = ImageBuffer::from_fn(w, h, |x, y| {
        let v = (x as u64 * 31 + y as u64 * 17 + seed) as u8;
        Rgb([v, v.wrapping_mul(3), v.wrapping_add(90)])
    });
    let mut out = std::io::Cursor::new(Vec::new());
    let f = match fmt {
        "image/png" => image::ImageFormat::Png,
        "image/jpeg" => image::ImageFormat::Jpeg,
        "image/gif" => image::ImageFormat::Gif,
        _ => image::ImageFormat::WebP,
    };
    image::DynamicImage::ImageRgb8(img).write_to(&mut out, f).expect("encode image");
    out.into_inner()
}

struct FileCase {
    /// a malicious member announced a hash that is not the hash of what the blob decrypts to
    forged: bool,
    data: Vec<u8>,
    up: EncryptedMediaUpload,
    tag: Tag,
    announce: usize,
    epoch: u64,
    members: BTreeSet<usize>,
}

fn media_history(prop: &str, i: u64, rng: &mut Rng, out: &mut Outcome, dir: &std::path::Path, big: bool) {
    let mut w = World::empty(dir.to_path_buf(), format!("c17-{i}"));
    let cfg = mdk_core::MdkConfig::default();
    let a = w.add_client(BackendKind::Memory, cfg.clone(), rng);
    let b = w.add_client(if i % 6 == 0 { BackendKind::Sqlite } else { BackendKind::Memory }, cfg.clone(), rng);
    let c = w.add_client(BackendKind::Memory, cfg.clone(), rng);
    let ex = w.add_client(BackendKind::Memory, cfg.clone(), rng); // removed before any file exists
    let other = w.add_client(BackendKind::Memory, cfg.clone(), rng); // member of another group only
    let g = w.create_group(&[a, b, c, ex], &[a], None, "media");
    let g2 = w.create_group(&[other, b], &[other], None, "elsewhere");
    let gid = w.gid(g);
    out.evaluations += 1;
    // remove `ex` (it processes its removal)
    if let Some(r) = w.act_commit_remove_target(a, g, ex, rng) {
        for m in [b, c, ex] {
            w.deliver(m, r, OwnMode::Echo);
        }
    }
    let members = [a, b, c];
    let mut files: Vec<FileCase> = vec![];
    let mut prev: Vec<(&str, Vec<u8>)> = vec![];
    let n_files = rng.range(1, 3);
    let mut pending_for: BTreeMap<usize, Vec<usize>> = BTreeMap::new(); // receiver -> log indices not yet delivered
    let mut late_own_echoes: Vec<(usize, usize)> = vec![]; // (sender, its announcing message) echoed only at the very end
    for fi in 0..n_files {
        w.t += 2;
        let sender = *rng.pick(&members);
        let family = rng.below(9);
        let (mime, data): (&str, Vec<u8>) = match family {
            0 => ("image/png", make_image(rng, "image/png")),
            1 => ("image/jpeg", make_image(rng, "image/jpeg")),
            2 => ("image/gif", make_image(rng, "image/gif")),
            3 => ("image/webp", make_image(rng, "image/webp")),
            4 => ("application/pdf", {
                let n = if big { 1_000_000 + rng.below(3_000_000) } else { rng.below(5000) };
                rng.vec(n)
            }),
            5 => ("text/plain", format!("plain text {}", rng.next()).into_bytes()),
            6 => ("audio/mpeg", rng.vecn(0, 3000)),
            7 => ("video/mp4", rng.vecn(0, 3000)),
            _ => ("application/octet-stream", if rng.chance(20) { vec![] } else { rng.vecn(1, 300) }),
        };
        // the same content announced again in a later epoch (a picture posted twice, two empty
        // files): the two uploads share their content hash and must both stay decryptable
        let (mime, data) = if fi > 0 && !prev.is_empty() && rng.chance(30) {
            out.count("same_content_announced_again");
            prev[rng.below(prev.len())].clone()
        } else {
            (mime, data)
        };
        prev.push((mime, data.clone()));
        let fname: String = match rng.below(6) {
            // names whose first or last character is white space (the name is bound byte for byte into
            // key and associated data), inner runs of blanks, a name that looks like another imeta entry
            4 => rng.pick(&["report.pdf ", " notes.pdf", "notes.pdf\u{3000}", "\u{a0}x.bin", "two  blanks.dat", "m image/png", "x 00ff.bin"]).to_string(),
            5 => format!(" f{fi} {} ", rng.next() % 1000),
            0 => "photo 1.bin".into(),
            1 => "\u{1F4F7}\u{5199}\u{771f}.dat".into(),
            2 => format!("{}.x", "f".repeat(200)),
            _ => format!("f{fi}-{}.dat", rng.next() % 1000),
        };
        // what the application passes in need not be the canonical spelling of the MIME type
        let spelled: String = match rng.below(8) {
            0 => mime.to_uppercase(),
            1 => format!("{mime}; charset=utf-8"),
            2 => format!(" {mime} "),
            3 => {
                let (a, b) = mime.split_once('/').unwrap_or((mime, ""));
                format!("{}{}/{}", &a[..1].to_uppercase(), &a[1..], b)
            }
            _ => mime.to_string(),
        };
        if spelled != mime {
            out.count("uploads_with_non_canonical_mime_spelling");
        }
        let up = with_mdk!(w.clients[sender].mdk, x => x.media_manager(gid.clone()).encrypt_for_upload(&data, &spelled, &fname));
        // one upload in six is forged by its (malicious) sender: key and associated data are derived
        // for the hash of `data`, the encrypted plaintext is something else. Nobody may get those
        // other bytes back: decryption has to fail on the hash it checks after opening the AEAD.
        let forged = up.is_ok() && !mime.starts_with("image/") && rng.chance(17);
        let up = if forged {
            use mdk_core::encrypted_media::crypto::{DEFAULT_SCHEME_VERSION, derive_encryption_key, encrypt_data_with_aad, generate_encryption_nonce};
            let honest = up.unwrap();
            let other: Vec<u8> = { let mut o = data.clone(); o.extend_from_slice(b"-not-what-was-announced"); o };
            let forged_up = with_mdk!(w.clients[sender].mdk, x => {
                derive_encryption_key(x, &gid, DEFAULT_SCHEME_VERSION, &honest.original_hash, &honest.mime_type, &honest.filename).ok().and_then(|key| {
                    let nonce = generate_encryption_nonce();
                    encrypt_data_with_aad(&other, &key, &nonce, DEFAULT_SCHEME_VERSION, &honest.original_hash, &honest.mime_type, &honest.filename).ok().map(|ct| (ct, *nonce))
                })
            });
            match forged_up {
                Some((ct, nonce)) => {
                    out.count("forged_uploads_announced_hash_differs_from_plaintext");
                    let mut u = honest;
                    u.encrypted_hash = Sha256::digest(&ct).into();
                    u.encrypted_size = ct.len() as u64;
                    u.encrypted_data = ct;
                    u.nonce = nonce;
                    Ok(u)
                }
                None => Ok(honest),
            }
        } else {
            up
        };
        let up = match up {
            Ok(u) => u,
            Err(e) => {
                out.note("upload_refusals", format!("{spelled:?}: {}", crate::util::first_words(&e.to_string(), 4)));
                continue;
            }
        };
        out.note("mime_families", mime);
        let url = format!("https://media.example.com/{}", hex::encode(up.encrypted_hash));
        let tag = with_mdk!(w.clients[sender].mdk, x => x.media_manager(gid.clone()).create_imeta_tag(&up, &url));
        // the announcing message
        let at = w.clients[sender].state(g, &gid).unwrap();
        let mut rumor: UnsignedEvent = EventBuilder::new(Kind::Custom(9), format!("file-{i}-{fi}")).tag(tag.clone()).custom_created_at(Timestamp::from(w.base_ts + fi as u64)).build(w.clients[sender].pk());
        rumor.ensure_id();
        mdk_core::verif::set_created_at(Some(w.t));
        let Ok(ev) = with_mdk!(w.clients[sender].mdk, x => x.create_message(&gid, rumor.clone())) else { continue };
        let idx = w.log.len();
        w.log.push(Pub { ev, kind: PubKind::App, author: sender, g, at: at.clone(), refs: vec![], what: format!("announce file {fi}"), rumor: Some(rumor), mode: OwnMode::Echo, welcomes: vec![], adversarial: false });
        // half of the time the relay's echo of the announcing message reaches its own sender only
        // after everything else (it decrypts its own upload while its copy is still `Created`)
        let own_echo_late = rng.chance(50);
        for m in members {
            if m == sender && own_echo_late {
                late_own_echoes.push((m, idx));
                continue;
            }
            pending_for.entry(m).or_default().push(idx);
        }
        files.push(FileCase { forged, data, up, tag, announce: idx, epoch: at.1, members: members.iter().copied().collect() });
        // 0..6 commits after the file; every receiver processes its backlog (announce + commits)
        // either announce-first or commits-first
        let k = rng.below(7);
        for _ in 0..k {
            w.t += 2;
            let t0 = w.t;
            let committer = *rng.pick(&members);
            // the committer must be up to date first
            let backlog = pending_for.remove(&committer).unwrap_or_default();
            for e in backlog {
                w.deliver(committer, e, OwnMode::Echo);
            }
            let kind = if w.is_admin_now(committer, g) && rng.chance(40) { CommitKind::Rename } else { CommitKind::SelfUpdate };
            if let Some(cidx) = w.act_commit(committer, g, &kind, t0, OwnMode::Immediate, rng.next() % 1000, rng) {
                for m in members {
                    if m != committer {
                        pending_for.entry(m).or_default().push(cidx);
                    }
                }
            }
        }
        out.note("epochs_after_encryption", k.to_string());
        // every receiver works off its backlog now: commits first and the announcing message
        // last (late announce, only while the announce is still inside the 5-epoch window), or in order
        for m in members {
            let mut backlog = pending_for.remove(&m).unwrap_or_default();
            let n_commits = backlog.iter().filter(|e| w.log[**e].kind == PubKind::Commit).count();
            let late = rng.chance(50) && n_commits <= 5;
            if late {
                backlog.sort_by_key(|e| (w.log[*e].kind == PubKind::App, *e));
                if n_commits > 0 {
                    out.count("receivers_with_late_announce");
                }
            } else {
                out.count("receivers_with_in_order_announce");
            }
            for e in backlog {
                w.deliver(m, e, OwnMode::Echo);
            }
        }
    }
    // ---- decryption by every member of the encrypting epoch ---------------------------------------
    for (fi, f) in files.iter().enumerate() {
        let expect_hash = f.up.original_hash;
        for &m in &f.members {
            let cur = w.clients[m].state(g, &gid).map(|s| s.1).unwrap_or(0);
            let dist = cur.saturating_sub(f.epoch);
            let r = with_mdk!(w.clients[m].mdk, x => {
                let mm = x.media_manager(gid.clone());
                mm.parse_imeta_tag(&f.tag).and_then(|rf| mm.decrypt_from_download(&f.up.encrypted_data, &rf))
            });
            out.count("member_decryptions");
            let processed_announce = w.clients[m].first_result.get(&f.announce).cloned().unwrap_or_else(|| if w.log[f.announce].author == m { "own".into() } else { "never".into() });
            if processed_announce == "own" && dist > 0 {
                out.count("sender_decryptions_before_its_own_echo_at_a_later_epoch");
            }
            match r {
                Ok(bytes) => {
                    let h: [u8; 32] = Sha256::digest(&bytes).into();
                    let is_image = f.up.mime_type.starts_with("image/");
                    if h != expect_hash || (!is_image && bytes != f.data) {
                        out.violation(format!("{prop}|member-decrypts-different-bytes"), format!("file {fi}: member c{m} decrypted {} bytes whose hash differs from the original", bytes.len()), json!({"scenario": i}));
                    }
                }
                Err(_) if f.forged => {
                    out.count("forged_uploads_refused");
                }
                Err(e) => {
                    // within the retention of exporter secrets (5 past epochs) this must work
                    let pred = if dist > 5 { "older-than-exporter-secret-lookback" } else if processed_announce != "ApplicationMessage" && processed_announce != "own" { "announce-not-processed" } else { "within-lookback" };
                    if pred == "within-lookback" || (pred == "older-than-exporter-secret-lookback") {
                        out.violation(
                            format!("{prop}|member-cannot-decrypt|{pred}"),
                            format!("file {fi} (encrypted at epoch {}): member c{m} at epoch {cur} (announce: {processed_announce}) cannot decrypt: {e}", f.epoch),
                            json!({"scenario": i, "trace": trace_tail(&w, 30)}),
                        );
                    } else {
                        out.note("info", format!("{pred}: {}", crate::util::first_words(&e.to_string(), 5)));
                    }
                }
            }
        }
        // ---- nobody else ---------------------------------------------------------------------------------
        let Ok(reference) = with_mdk!(w.clients[a].mdk, x => x.media_manager(gid.clone()).parse_imeta_tag(&f.tag)) else { continue };
        for (who, client, use_gid) in [("ex-member-removed-before", ex, gid.clone()), ("other-group-member", other, w.gid(g2)), ("other-group-member-foreign-gid", other, gid.clone())] {
            let r = with_mdk!(w.clients[client].mdk, x => x.media_manager(use_gid.clone()).decrypt_from_download(&f.up.encrypted_data, &reference));
            out.count("non_member_decryptions");
            if r.is_ok() {
                out.violation(format!("{prop}|non-member-decrypts|{who}"), format!("file {fi}: {who} obtained the plaintext"), json!({"scenario": i}));
            }
        }
        // ---- tamper evidence -------------------------------------------------------------------------------
        let n_ct = f.up.encrypted_data.len();
        let positions: Vec<usize> = if n_ct * 8 <= 2048 { (0..n_ct * 8).collect() } else { (0..200).map(|_| rng.below(n_ct * 8)).collect() };
        let dec = |w: &World, data: &[u8], rf: &MediaReference| with_mdk!(w.clients[b].mdk, x => x.media_manager(gid.clone()).decrypt_from_download(data, rf));
        for p in positions {
            let mut d = f.up.encrypted_data.clone();
            d[p / 8] ^= 1 << (p % 8);
            out.count("tamper_trials");
            if let Ok(bytes) = dec(&w, &d, &reference) {
                out.violation(format!("{prop}|tampered-ciphertext-accepted"), format!("bit {p} of the ciphertext flipped, decryption returned {} bytes", bytes.len()), json!({"scenario": i}));
                break;
            }
        }
        for bit in 0..96 {
            let mut rf = reference.clone();
            rf.nonce[bit / 8] ^= 1 << (bit % 8);
            out.count("tamper_trials");
            if dec(&w, &f.up.encrypted_data, &rf).is_ok() {
                out.violation(format!("{prop}|tampered-nonce-accepted"), format!("nonce bit {bit} flipped"), json!({"scenario": i}));
                break;
            }
        }
        let field_mutations: Vec<(&str, MediaReference)> = vec![
            ("filename", MediaReference { filename: format!("{}x", reference.filename), ..reference.clone() }),
            ("mime_type", MediaReference { mime_type: if reference.mime_type == "text/plain" { "application/pdf".into() } else { "text/plain".into() }, ..reference.clone() }),
            ("original_hash", {
                let mut r2 = reference.clone();
                r2.original_hash[rng.below(32)] ^= 1 << rng.below(8);
                r2
            }),
            ("scheme_version", MediaReference { scheme_version: "mip04-v1".into(), ..reference.clone() }),
        ];
        for (field, rf) in field_mutations {
            out.count("tamper_trials");
            out.note("tampered_fields", field);
            if let Ok(bytes) = dec(&w, &f.up.encrypted_data, &rf) {
                out.violation(format!("{prop}|changed-field-accepted|{field}"), format!("decryption with a changed {field} returned {} bytes", bytes.len()), json!({"scenario": i}));
            }
        }
    }
    // ---- key separation --------------------------------------------------------------------------------------
    let mut keys: BTreeMap<[u8; 32], String> = BTreeMap::new();
    let h1 = rng.bytes::<32>();
    let mut h2 = h1;
    h2[31] ^= 1;
    let tuples: Vec<(String, usize, GroupId, [u8; 32], &str, &str)> = vec![
        ("base".into(), b, gid.clone(), h1, "text/plain", "a.txt"),
        ("other-hash".into(), b, gid.clone(), h2, "text/plain", "a.txt"),
        ("other-name".into(), b, gid.clone(), h1, "text/plain", "b.txt"),
        ("other-mime".into(), b, gid.clone(), h1, "application/pdf", "a.txt"),
        ("other-group".into(), b, w.gid(g2), h1, "text/plain", "a.txt"),
        // field-boundary shifts must not collide either
        ("name-mime-boundary-shift".into(), b, gid.clone(), h1, "text/plaina", ".txt"),
    ];
    for (label, client, gg, h, mime, name) in tuples {
        if let Ok(k) = with_mdk!(w.clients[client].mdk, x => derive_encryption_key(x, &gg, "mip04-v2", &h, mime, name)) {
            out.count("keys_derived");
            if let Some(prev) = keys.insert(*k, label.clone()) {
                out.violation(format!("{prop}|key-collision|{prev}~{label}"), format!("tuples `{prev}` and `{label}` derive the same key"), json!({}));
            }
        }
    }
    // the same tuple in the next epoch
    let t0 = w.t + 2;
    if let Some(cidx) = w.act_commit(a, g, &CommitKind::SelfUpdate, t0, OwnMode::Immediate, 0, rng) {
        w.deliver(b, cidx, OwnMode::Echo);
        if let Ok(k) = with_mdk!(w.clients[b].mdk, x => derive_encryption_key(x, &gid, "mip04-v2", &h1, "text/plain", "a.txt")) {
            out.count("keys_derived");
            if let Some(prev) = keys.insert(*k, "next-epoch".into()) {
                out.violation(format!("{prop}|key-collision|{prev}~next-epoch"), "the same tuple derives the same key in the next epoch".to_string(), json!({}));
            }
        }
    }
    for (m, e) in late_own_echoes {
        w.deliver(m, e, OwnMode::Echo);
    }
    out.distinct.insert(crate::rng::fnv(format!("{i}-{}-{}", files.len(), w.log.len()).as_bytes()));
    if i < 2 {
        out.sample(json!({"scenario": i, "files": files.iter().map(|f| json!({"mime": f.up.mime_type, "filename_chars": f.up.filename.chars().count(), "size": f.data.len(), "epoch": f.epoch})).collect::<Vec<_>>(), "events": w.log.len()}), 3);
    }
    w.cleanup();
}

fn group_image(prop: &str, i: u64, rng: &mut Rng, out: &mut Outcome, dir: &std::path::Path) {
    use chacha20poly1305::aead::{Aead, KeyInit};
    use chacha20poly1305::{ChaCha20Poly1305, Nonce};
    let mut w = World::empty(dir.to_path_buf(), format!("c17g-{i}"));
    let cfg = mdk_core::MdkConfig::default();
    let a = w.add_client(BackendKind::Memory, cfg.clone(), rng);
    let b = w.add_client(BackendKind::Memory, cfg.clone(), rng);
    let g = w.create_group(&[a, b], &[a], None, "avatar");
    let gid = w.gid(g);
    out.evaluations += 1;
    let mime = *rng.pick(&["image/png", "image/jpeg", "image/gif", "image/webp"]);
    let img = make_image(rng, mime);
    let up = match prepare_group_image_for_upload(&img, mime) {
        Ok(u) => u,
        Err(e) => {
            out.violation(format!("{prop}|group-image-prepare-failed|{mime}"), format!("{e}"), json!({}));
            return;
        }
    };
    // publish through update_group_data (v2: image_key is the seed)
    w.t += 2;
    let upd = NostrGroupDataUpdate::new().image_hash(Some(up.encrypted_hash)).image_key(Some(*up.image_key)).image_nonce(Some(*up.image_nonce)).image_upload_key(Some(*up.image_upload_key));
    mdk_core::verif::set_created_at(Some(w.t));
    let at = w.clients[a].state(g, &gid).unwrap();
    let Ok(u) = with_mdk!(w.clients[a].mdk, x => x.update_group_data(&gid, upd)) else { return };
    let idx = w.log.len();
    w.log.push(Pub { ev: u.evolution_event, kind: PubKind::Commit, author: a, g, at, refs: vec![], what: "set image".into(), rumor: None, mode: OwnMode::Immediate, welcomes: vec![], adversarial: false });
    w.clients[a].pending_own.insert(g, idx);
    w.act_merge(a, g);
    w.deliver(b, idx, OwnMode::Echo);
    // the receiver takes seed + nonce + hash from its stored group
    let rec = with_mdk!(w.clients[b].mdk, x => x.get_group(&gid).ok().flatten());
    let Some(rec) = rec else { return };
    let (Some(hash), Some(key), Some(nonce)) = (rec.image_hash, rec.image_key.clone(), rec.image_nonce.clone()) else {
        out.violation(format!("{prop}|group-image-fields-not-published"), "receiver's record lacks image fields after the commit".to_string(), json!({}));
        return;
    };
    out.count("group_image_roundtrips");
    out.note("group_image_formats", mime);
    match decrypt_group_image(&up.encrypted_data, Some(&hash), &key, &nonce) {
        Ok(bytes) => {
            // the blob holds the sanitised (re-encoded) image: judge by content, not by size
            match image::load_from_memory(&bytes) {
                Ok(im) => {
                    let orig = image::load_from_memory(&img).unwrap();
                    if (im.width(), im.height()) != (orig.width(), orig.height()) || up.dimensions.map(|d| d != (im.width(), im.height())).unwrap_or(false) {
                        out.violation(format!("{prop}|group-image-roundtrip|{mime}"), format!("decrypted image is {}x{}, original {}x{}", im.width(), im.height(), orig.width(), orig.height()), json!({}));
                    }
                }
                Err(e) => out.violation(format!("{prop}|group-image-roundtrip|{mime}"), format!("decrypted bytes are not an image: {e}"), json!({})),
            }
        }
        Err(e) => out.violation(format!("{prop}|group-image-cannot-decrypt|v2|{mime}"), format!("{e}"), json!({})),
    }
    // tamper: every bit of a small prefix + random bits
    let n = up.encrypted_data.len();
    for _ in 0..120 {
        let p = rng.below(n * 8);
        let mut d = (*up.encrypted_data).clone();
        d[p / 8] ^= 1 << (p % 8);
        out.count("tamper_trials");
        // with the published hash
        if decrypt_group_image(&d, Some(&hash), &key, &nonce).is_ok() {
            out.violation(format!("{prop}|tampered-group-image-accepted|with-hash"), format!("bit {p}"), json!({}));
            break;
        }
        // and in legacy mode without hash the AEAD tag still has to catch it
        if decrypt_group_image(&d, None, &key, &nonce).is_ok() {
            out.violation(format!("{prop}|tampered-group-image-accepted|legacy-no-hash"), format!("bit {p}"), json!({}));
            break;
        }
    }
    let mut n2 = *nonce;
    n2[rng.below(12)] ^= 1 << rng.below(8);
    out.count("tamper_trials");
    if decrypt_group_image(&up.encrypted_data, Some(&hash), &key, &Secret::new(n2)).is_ok() {
        out.violation(format!("{prop}|tampered-group-image-nonce-accepted"), "nonce bit flipped".to_string(), json!({}));
    }
    // v1 format: image_key is the ChaCha20-Poly1305 key itself
    let k1 = rng.bytes::<32>();
    let nn = rng.bytes::<12>();
    let cipher = ChaCha20Poly1305::new_from_slice(&k1).unwrap();
    let ct = cipher.encrypt(Nonce::from_slice(&nn), img.as_slice()).unwrap();
    let h: [u8; 32] = Sha256::digest(&ct).into();
    out.count("group_image_v1_roundtrips");
    match decrypt_group_image(&ct, Some(&h), &Secret::new(k1), &Secret::new(nn)) {
        Ok(bytes) if bytes == img => {}
        Ok(_) => out.violation(format!("{prop}|group-image-roundtrip|v1"), "v1 blob decrypted to different bytes".to_string(), json!({})),
        Err(e) => out.violation(format!("{prop}|group-image-cannot-decrypt|v1"), format!("{e}"), json!({})),
    }
    let mut ct2 = ct.clone();
    let p = rng.below(ct2.len() * 8);
    ct2[p / 8] ^= 1 << (p % 8);
    if decrypt_group_image(&ct2, None, &Secret::new(k1), &Secret::new(nn)).is_ok() {
        out.violation(format!("{prop}|tampered-group-image-accepted|v1-no-hash"), format!("bit {p}"), json!({}));
    }
    out.distinct.insert(crate::rng::fnv(format!("gi-{i}-{mime}-{n}").as_bytes()));
    w.cleanup();
}

pub fn run(ctx: &Ctx) -> i32 {
    let dir = ctx.scratch_dir("c17");
    let n = ctx.budget(1500, 30_000) as u64;
    let thorough = ctx.tier == crate::report::Tier::Thorough;
    let out = crate::par::run(ctx, n, std::time::Duration::from_secs(ctx.tier.pick(80, 1200)), |i, rng, out| {
        if i % 5 == 4 { group_image(&ctx.prop, i, rng, out, &dir) } else { media_history(&ctx.prop, i, rng, out, &dir, thorough && i % 50 == 0 || i % 97 == 0) }
    });
    let _ = std::fs::remove_dir_all(&dir);
    let floors = vec![
        Floor { what: "member decryptions", have: out.get("member_decryptions"), need: 1000 },
        Floor { what: "non-member decryption attempts", have: out.get("non_member_decryptions"), need: 800 },
        Floor { what: "tamper trials", have: out.get("tamper_trials"), need: 50_000 },
        Floor { what: "receivers that processed the announcing message after later commits", have: out.get("receivers_with_late_announce"), need: 200 },
        Floor { what: "senders decrypting their own upload at a later epoch before their own echo arrived", have: out.get("sender_decryptions_before_its_own_echo_at_a_later_epoch"), need: 150 },
        Floor { what: "files whose content had been announced before in another epoch", have: out.get("same_content_announced_again"), need: 40 },
        Floor { what: "uploads whose MIME type was passed in a non-canonical spelling", have: out.get("uploads_with_non_canonical_mime_spelling"), need: 150 },
        Floor { what: "MIME families", have: out.sets.get("mime_families").map(|s| s.len()).unwrap_or(0) as u64, need: 8 },
        Floor { what: "group image round trips (v2)", have: out.get("group_image_roundtrips"), need: 60 },
    ];
    finish(
        ctx,
        "exploration",
        "files of every allowed MIME family (real PNG/JPEG/GIF/WebP generated with the image crate; opaque bytes 0 B .. 5 KB, occasionally MBs, for pdf/text/audio/video/octet-stream) with file names incl. spaces, multi-byte and 200-character names are encrypted by a member, announced in a message carrying the imeta tag, followed by 0-6 commits; each receiver processes the announcing message either in order or after all later commits. Every member of the encrypting epoch must decrypt to bytes whose SHA-256 is the published hash (and, for non-images, the original bytes); a member removed before, a member of another group (with its own and with the foreign group id) must fail. Tamper: every bit of ciphertexts <= 256 B (200 random bits otherwise), every nonce bit, changed file name / MIME type / hash / scheme version must all make decryption fail. Key separation over (hash, name, MIME, group, epoch) incl. a field-boundary shift. Group images: prepare_group_image_for_upload -> update_group_data -> receiver's record -> decrypt_group_image (v2), 120 bit flips with and without hash, nonce flip, and a hand-made v1 blob",
        out,
        floors,
        vec!["image payloads are sanitised (EXIF stripped) before hashing, so image round trips are judged by the published hash, not by byte equality with the input".into()],
        json!({}),
    )
}
