//! C19 - storage backends are safe to share between threads.
//! (a) in-process threaded stress with client-boundary histories and per-key checks on both
//! backends; (b) the same stress in a ThreadSanitizer build; (c) the memory backend under Miri.

use std::path::PathBuf;
use std::sync::Arc;
use std::time::Duration;

use mdk_memory_storage::MdkMemoryStorage;
use mdk_sqlite_storage::MdkSqliteStorage;
use mdk_sqlite_storage::verif::{TickAction, set_tick_hook};
use serde_json::json;

use super::c06::{ChildEnd, wait_capture, wait_timeout};
use crate::report::{Ctx, Floor, Outcome, finish};
use crate::rng::Rng;
use crate::vstore::stress::*;
use crate::vstore::universe::Universe;

fn one_round(backend: &str, i: u64, rng: &mut Rng, out: &mut Outcome, dir: &std::path::Path, print: bool) {
    let u = Universe::new(rng.next());
    let threads = *rng.pick(&[2usize, 3, 4, 6, 8, 12, 16]);
    let cfg = StressCfg { threads, ops_per_thread: rng.range(20, 60), yield_pct: *rng.pick(&[0u32, 10, 40]), groups: 3 };
    let seed = rng.next();
    let versions = rng.range(10, 40) as u64;
    let snapshotters = rng.range(1, 3);
    let claim_threads = *rng.pick(&[2usize, 3, 4, 6, 8]);
    let claim_rounds = rng.range(40, 120);
    let mut races = 0u64;
    let mut op_races = 0u64;
    let mut op_race_kinds: std::collections::BTreeSet<String> = Default::default();
    let (rep, cut, claims) = match backend {
        "memory" => {
            let s = MdkMemoryStorage::default();
            let r = run_stress(&s, &u, &cfg, seed);
            let s2 = MdkMemoryStorage::default();
            let c = run_snapshot_cut(&s2, &u, versions, snapshotters, seed);
            let s3 = MdkMemoryStorage::default();
            let mut k = run_claims(&s3, &u, claim_threads, claim_rounds, seed);
            let s4 = MdkMemoryStorage::default();
            let rr = run_rollback_readers(&s4, &u, rng.range(100, 400), rng.range(2, 5), seed);
            k.violations.extend(rr.violations);
            k.reads += rr.reads;
            let s6 = MdkMemoryStorage::default();
            let orc = run_op_races(&s6, &u, rng.range(40, 100), seed);
            k.violations.extend(orc.violations);
            op_races = orc.histories_ops;
            op_race_kinds = orc.keys;
            let s5 = MdkMemoryStorage::default();
            let rc = run_rollback_races(&s5, &u, *rng.pick(&[2usize, 3, 4, 8]), rng.range(20, 60), seed);
            k.violations.extend(rc.violations);
            races = rc.histories_ops;
            (r, c, k)
        }
        _ => {
            let sub = dir.join(format!("t{}", i % 32));
            let _ = std::fs::create_dir_all(&sub);
            let p1 = sub.join(format!("c19-{i}.db"));
            let p2 = sub.join(format!("c19-{i}-cut.db"));
            let s = MdkSqliteStorage::new_unencrypted(&p1).expect("open");
            let r = run_stress(&s, &u, &cfg, seed);
            let s2 = MdkSqliteStorage::new_unencrypted(&p2).expect("open");
            let c = run_snapshot_cut(&s2, &u, versions, snapshotters, seed);
            let p3 = sub.join(format!("c19-{i}-claims.db"));
            let s3 = MdkSqliteStorage::new_unencrypted(&p3).expect("open");
            let mut k = run_claims(&s3, &u, claim_threads, claim_rounds.min(60), seed);
            let p4 = sub.join(format!("c19-{i}-rr.db"));
            let s4 = MdkSqliteStorage::new_unencrypted(&p4).expect("open");
            let rr = run_rollback_readers(&s4, &u, rng.range(20, 60), rng.range(2, 4), seed);
            k.violations.extend(rr.violations);
            k.reads += rr.reads;
            drop(s4);
            {
                let p6 = sub.join(format!("c19-{i}-opraces.db"));
                let s6 = MdkSqliteStorage::new_unencrypted(&p6).expect("open");
                let orc = run_op_races(&s6, &u, rng.range(20, 50), seed);
                k.violations.extend(orc.violations);
                op_races = orc.histories_ops;
                op_race_kinds = orc.keys;
                drop(s6);
                for suf in ["", "-journal", "-wal", "-shm"] {
                    let _ = std::fs::remove_file(format!("{}{}", p6.display(), suf));
                }
            }
            {
                let p5 = sub.join(format!("c19-{i}-races.db"));
                let s5 = MdkSqliteStorage::new_unencrypted(&p5).expect("open");
                let rc = run_rollback_races(&s5, &u, *rng.pick(&[2usize, 3, 4, 8]), rng.range(10, 30), seed);
                k.violations.extend(rc.violations);
                races = rc.histories_ops;
                drop(s5);
                for suf in ["", "-journal", "-wal", "-shm"] {
                    let _ = std::fs::remove_file(format!("{}{}", p5.display(), suf));
                }
            }
            for suf in ["", "-journal", "-wal", "-shm"] {
                let _ = std::fs::remove_file(format!("{}{}", p4.display(), suf));
            }
            drop(s);
            drop(s2);
            drop(s3);
            for p in [p1, p2, p3] {
                for suf in ["", "-journal", "-wal", "-shm"] {
                    let _ = std::fs::remove_file(format!("{}{}", p.display(), suf));
                }
            }
            (r, c, k)
        }
    };
    out.add("calls_racing_on_one_snapshot", races);
    out.add("operations_released_together_and_checked_against_the_model", op_races);
    for kk in op_race_kinds {
        if let Some(r) = kk.strip_prefix("race:") {
            out.note("operation_sets_raced", r.to_string());
        } else if kk == "candidate-set-overflow" {
            out.count("op_race_runs_ended_by_candidate_overflow");
        } else {
            out.info.push(format!("run_op_races stopped early: {kk}"));
        }
    }
    out.add("claim_rounds_concurrent_save_group", claims.histories_ops);
    out.add("reads_during_concurrent_snapshot_rollback", claims.reads);
    out.evaluations += 1;
    out.count(&format!("histories_{backend}"));
    out.add("history_operations", rep.histories_ops);
    out.add("reads_matched_to_writes", rep.reads);
    out.add("reads_overlapping_their_write", rep.overlapping_pairs);
    out.add("snapshots_taken_under_load_and_restored", cut.snapshots_checked);
    out.add("snapshots_that_cut_through_a_version_bump", cut.overlapping_pairs);
    out.note("thread_counts", threads.to_string());
    for k in &rep.keys {
        out.note("key_classes", k.clone());
    }
    if rep.overlapping_pairs > 0 || cut.overlapping_pairs > 0 {
        out.distinct.insert(crate::rng::fnv(format!("{backend}-{i}-{}-{}", rep.histories_ops, rep.overlapping_pairs).as_bytes()));
    }
    for (clause, detail) in rep.violations.iter().chain(cut.violations.iter()).chain(claims.violations.iter()) {
        if print {
            println!("STRESS-VIOLATION {backend}|{clause} :: {detail}");
        }
        out.violation(format!("C19|{clause}|{backend}"), format!("[{backend}, {threads} threads, round {i}] {detail}"), json!({"backend": backend, "round": i, "threads": threads, "seed": seed}));
    }
    for p in &rep.panics {
        if print {
            println!("STRESS-VIOLATION {backend}|panic :: {p}");
        }
        out.violation(format!("C19|panic|{backend}"), format!("[{backend}] a worker thread panicked: {p}"), json!({"backend": backend, "round": i}));
    }
    if i < 2 {
        out.sample(json!({"backend": backend, "threads": threads, "ops_per_thread": cfg.ops_per_thread, "operations": rep.histories_ops, "reads": rep.reads, "writes": rep.writes, "snapshots_restored": cut.snapshots_checked}), 4);
    }
}

/// `vcheck C19-stress <memory|sqlite> <rounds>`: the workload alone (this is what runs under TSan).
pub fn stress_child(ctx: &Ctx, rest: &[String]) -> i32 {
    let backend = rest.first().cloned().unwrap_or_else(|| "memory".into());
    let rounds: u64 = rest.get(1).and_then(|s| s.parse().ok()).unwrap_or(5);
    let dir = ctx.scratch_dir("c19-child");
    if backend == "sqlite" {
        // yields between critical sections (outside the connection lock)
        set_tick_hook(Some(Arc::new(|_| {
            if std::time::Instant::now().elapsed().subsec_nanos() % 3 == 0 {
                std::thread::yield_now();
            }
            TickAction::Continue
        })));
    }
    {
        let backend = backend.clone();
        crate::vstore::stall::spawn_monitor(Duration::from_secs(15), move |_label, detail| {
            println!("STRESS-VIOLATION {backend}|no-progress-all-threads-blocked :: {detail}");
            println!("STRESS-DONE backend={backend} rounds=0 operations=0 violations=1 (stalled)");
            std::process::exit(0);
        });
    }
    let mut out = Outcome::default();
    for i in 0..rounds {
        let mut rng = Rng::for_scenario(ctx.seed, "C19-child", i);
        one_round(&backend, i, &mut rng, &mut out, &dir, true);
    }
    let _ = std::fs::remove_dir_all(&dir);
    println!("STRESS-DONE backend={backend} rounds={rounds} operations={} violations={}", out.get("history_operations"), out.violations.len());
    0
}

/// `vcheck C19-rounds <first> <step> <count> <deadline-secs> <outfile>`: the in-process rounds
/// `first, first+step, ...` of the thread stress, run in a child so that a deadlock of the workers can
/// be reported: the outcome file is rewritten after every round; when the stall monitor fires it
/// writes `<outfile>.stall` and ends the process with exit code 77.
pub fn rounds_child(ctx: &Ctx, rest: &[String]) -> i32 {
    let num = |k: usize, d: u64| rest.get(k).and_then(|s| s.parse::<u64>().ok()).unwrap_or(d);
    let (first, step, count, deadline) = (num(0, 0), num(1, 1).max(1), num(2, 1), num(3, 60));
    let outfile = rest.get(4).cloned().unwrap_or_default();
    let dir = ctx.scratch_dir(&format!("c19-{first}"));
    static CURRENT: std::sync::atomic::AtomicU64 = std::sync::atomic::AtomicU64::new(0);
    {
        let stallfile = format!("{outfile}.stall");
        crate::vstore::stall::spawn_monitor(Duration::from_secs(15), move |label, detail| {
            let i = CURRENT.load(std::sync::atomic::Ordering::SeqCst);
            let _ = std::fs::write(&stallfile, json!({"round": i, "backend": if i % 2 == 0 { "memory" } else { "sqlite" }, "section": label, "detail": detail}).to_string());
            std::process::exit(77);
        });
    }
    // yields between critical sections of the SQLite backend (global hook; outside the lock)
    set_tick_hook(Some(Arc::new(|_| {
        static N: std::sync::atomic::AtomicU64 = std::sync::atomic::AtomicU64::new(0);
        if N.fetch_add(1, std::sync::atomic::Ordering::Relaxed) % 5 == 0 {
            std::thread::yield_now();
        }
        TickAction::Continue
    })));
    let start = std::time::Instant::now();
    let mut out = Outcome::default();
    for k in 0..count {
        let i = first + k * step;
        if start.elapsed() > Duration::from_secs(deadline) {
            out.info.push(format!("wall-clock budget reached in the shard starting at round {first} after {k} rounds of {count}"));
            break;
        }
        CURRENT.store(i, std::sync::atomic::Ordering::SeqCst);
        let mut rng = Rng::for_scenario(ctx.seed, "C19", i);
        let backend = if i % 2 == 0 { "memory" } else { "sqlite" };
        let mut o = Outcome::default();
        let r = std::panic::catch_unwind(std::panic::AssertUnwindSafe(|| one_round(backend, i, &mut rng, &mut o, &dir, false)));
        crate::par::tag_scenario(&mut o, i);
        if let Err(p) = r {
            let msg = crate::par::panic_msg(&p);
            o.violation(format!("C19|panic|{}", crate::util::first_words(&msg, 12)), format!("panic in round {i}: {msg}"), json!({"scenario": i, "seed": ctx.seed, "panic": msg}));
        }
        out.merge(o);
        let _ = std::fs::write(&outfile, serde_json::to_string(&out).unwrap());
    }
    set_tick_hook(None);
    let _ = std::fs::remove_dir_all(&dir);
    let _ = std::fs::write(&outfile, serde_json::to_string(&out).unwrap());
    0
}

/// Parent side of the in-process rounds: shards in child processes, three at a time (each round is
/// itself multi-threaded).
fn rounds_pass(ctx: &Ctx, n: u64) -> Outcome {
    let exe = std::env::current_exe().expect("current exe");
    let tmp = ctx.scratch_dir("c19-parent");
    let deadline = ctx.tier.pick(60, 900) as u64;
    // VERIF_ONLY=<i> (set by hand or by --replay): that round alone
    let only: Option<u64> = std::env::var("VERIF_ONLY").ok().and_then(|s| s.parse().ok());
    let plan: Vec<(u64, u64, u64)> = match only {
        Some(i) if i < n => vec![(i, 1, 1)],
        Some(_) => vec![],
        None => {
            let shards = 6u64;
            (0..shards).map(|s| (s, shards, n.div_ceil(shards))).collect()
        }
    };
    let next = std::sync::atomic::AtomicU64::new(0);
    let results = std::sync::Mutex::new(vec![]);
    std::thread::scope(|s| {
        for _ in 0..3 {
            s.spawn(|| {
                loop {
                    let k = next.fetch_add(1, std::sync::atomic::Ordering::SeqCst) as usize;
                    if k >= plan.len() {
                        break;
                    }
                    let (first, step, count) = plan[k];
                    let outfile = tmp.join(format!("rounds-{first}.json"));
                    let st = std::process::Command::new(&exe)
                        .args(["C19-rounds", "--seed", &ctx.seed.to_string(), "--verif-dir", &ctx.verif_dir.to_string_lossy(), "--tier", ctx.tier.pick("quick", "thorough")])
                        .args([first.to_string(), step.to_string(), count.to_string(), deadline.to_string(), outfile.to_string_lossy().to_string()])
                        .stdout(std::process::Stdio::null())
                        .stderr(std::process::Stdio::piped())
                        .spawn()
                        .and_then(|c| wait_timeout(c, Duration::from_secs(deadline + 180)));
                    results.lock().unwrap().push((first, st, outfile));
                }
            });
        }
    });
    let mut out = Outcome::default();
    for (first, st, outfile) in results.into_inner().unwrap() {
        let partial = std::fs::read_to_string(&outfile).ok().and_then(|s| serde_json::from_str::<Outcome>(&s).ok());
        match st {
            Ok(ChildEnd::Exited(0)) => match partial {
                Some(o) => out.merge(o),
                None => out.inconclusive.push(format!("rounds shard {first}: no outcome file")),
            },
            Ok(ChildEnd::Exited(77)) => {
                if let Some(o) = partial {
                    out.merge(o);
                }
                let stall: serde_json::Value = std::fs::read_to_string(format!("{}.stall", outfile.display())).ok().and_then(|s| serde_json::from_str(&s).ok()).unwrap_or(json!({}));
                let backend = stall["backend"].as_str().unwrap_or("?").to_string();
                let section = stall["section"].as_str().unwrap_or("?").to_string();
                out.evaluations += 1;
                out.violation(
                    format!("C19|no-progress-all-threads-blocked|{backend}|{}", section.split('(').nth(1).unwrap_or(&section).trim_end_matches(')')),
                    format!("[{backend}, round {}] {}", stall["round"], stall["detail"].as_str().unwrap_or("")),
                    json!({"scenario": stall["round"], "backend": backend, "section": section}),
                );
            }
            Ok(ChildEnd::Exited(code)) => out.inconclusive.push(format!("rounds shard {first}: child exit code {code} (harness error)")),
            Ok(ChildEnd::Signal(9, _)) => out.inconclusive.push(format!("rounds shard {first}: child killed by SIGKILL (OOM?)")),
            Ok(ChildEnd::Signal(sig, stderr)) => {
                if let Some(o) = partial {
                    out.merge(o);
                }
                out.violation(format!("C19|abnormal-exit|signal={sig}"), format!("rounds shard {first} died with signal {sig}: {}", crate::util::short(&stderr, 400)), json!({"shard": first}));
            }
            Ok(ChildEnd::TimedOut) => out.inconclusive.push(format!("rounds shard {first}: watchdog fired (no verdict: the stall monitor did not see all threads blocked)")),
            Err(e) => out.inconclusive.push(format!("rounds shard {first}: spawn failed {e}")),
        }
    }
    let _ = std::fs::remove_dir_all(&tmp);
    out
}

/// `vcheck C19-opraces <memory|sqlite> <instances> <trials>`: the generic race engine alone (debug aid).
pub fn opraces_debug(ctx: &Ctx, rest: &[String]) -> i32 {
    let backend = rest.first().cloned().unwrap_or_else(|| "memory".into());
    let n: u64 = rest.get(1).and_then(|s| s.parse().ok()).unwrap_or(50);
    let trials: usize = rest.get(2).and_then(|s| s.parse().ok()).unwrap_or(150);
    let dir = ctx.scratch_dir("c19-opraces");
    let mut bad = 0;
    for i in 0..n {
        let mut rng = Rng::for_scenario(ctx.seed, "C19-opraces", i);
        let u = Universe::new(rng.next());
        let seed = rng.next();
        let rep = if backend == "memory" {
            run_op_races(&MdkMemoryStorage::default(), &u, trials, seed)
        } else {
            let p = dir.join(format!("o{i}.db"));
            let s = MdkSqliteStorage::new_unencrypted(&p).expect("open");
            run_op_races(&s, &u, trials, seed)
        };
        for (c, d) in &rep.violations {
            bad += 1;
            println!("OPRACE-VIOLATION instance {i}: {c} :: {d}\n");
        }
    }
    let _ = std::fs::remove_dir_all(&dir);
    println!("OPRACES-DONE backend={backend} instances={n} violations={bad}");
    0
}

fn harness_dir(ctx: &Ctx) -> PathBuf {
    ctx.verif_dir.join("harness")
}

fn tsan_pass(ctx: &Ctx, out: &mut Outcome) {
    let hd = harness_dir(ctx);
    let build = std::process::Command::new("cargo")
        .args(["+nightly", "build", "-Zbuild-std", "--target", "x86_64-unknown-linux-gnu", "--target-dir", "target-tsan", "--offline"])
        .current_dir(&hd)
        .env("RUSTFLAGS", "-Zsanitizer=thread")
        .env("CARGO_NET_OFFLINE", "true")
        .stdout(std::process::Stdio::null())
        .stderr(std::process::Stdio::piped())
        .spawn()
        .and_then(|c| wait_timeout(c, Duration::from_secs(1500)));
    if !matches!(build, Ok(ChildEnd::Exited(0))) {
        out.inconclusive.push("ThreadSanitizer build of the harness failed or timed out".into());
        return;
    }
    let bin = hd.join("target-tsan/x86_64-unknown-linux-gnu/debug/vcheck");
    let logdir = ctx.scratch_dir("c19-tsan");
    for (backend, rounds) in [("memory", ctx.tier.pick(12, 200)), ("sqlite", ctx.tier.pick(6, 100))] {
        let logp = logdir.join(format!("tsan-{backend}"));
        let child = std::process::Command::new(&bin)
            .args(["C19-stress", "--seed", &ctx.seed.to_string(), "--verif-dir", &ctx.verif_dir.to_string_lossy(), backend, &rounds.to_string()])
            .env("TSAN_OPTIONS", format!("halt_on_error=0 exitcode=66 log_path={}", logp.display()))
            .stdout(std::process::Stdio::piped())
            .stderr(std::process::Stdio::piped())
            .spawn();
        let Ok(child) = child else {
            out.inconclusive.push("could not start the TSan binary".into());
            continue;
        };
        let (st, stdout) = match wait_capture(child, Duration::from_secs(ctx.tier.pick(600, 3000))) {
            Ok((e, o, _)) => (Ok(e), o),
            Err(e) => (Err(e), String::new()),
        };
        match st {
            Ok(ChildEnd::Exited(0)) | Ok(ChildEnd::Exited(66)) => {}
            Ok(ChildEnd::TimedOut) => {
                out.inconclusive.push(format!("TSan {backend} run: watchdog fired"));
                continue;
            }
            other => {
                let d = match other {
                    Ok(ChildEnd::Exited(c)) => format!("exit {c}"),
                    Ok(ChildEnd::Signal(s, e)) => format!("signal {s}: {}", crate::util::short(&e, 200)),
                    _ => "error".into(),
                };
                out.inconclusive.push(format!("TSan {backend} run ended abnormally: {d}"));
                continue;
            }
        }
        out.add(&format!("tsan_rounds_{backend}"), rounds as u64);
        if let Some(l) = stdout.lines().find(|l| l.starts_with("STRESS-DONE")) {
            out.note("tsan_runs", l.to_string());
            if let Some(ops) = l.split("operations=").nth(1).and_then(|x| x.split(' ').next()).and_then(|x| x.parse::<u64>().ok()) {
                out.add("tsan_operations", ops);
            }
        }
        for l in stdout.lines().filter(|l| l.starts_with("STRESS-VIOLATION")) {
            out.violation(format!("C19|under-tsan|{}", l.split("::").next().unwrap_or("").trim().replace("STRESS-VIOLATION ", "")), l.to_string(), json!({"tsan": true}));
        }
        // reports: one log file per process id
        let mut reports = 0u64;
        let mut in_repo: std::collections::BTreeSet<String> = Default::default();
        for e in std::fs::read_dir(&logdir).into_iter().flatten().flatten() {
            let p = e.path();
            if !p.file_name().map(|n| n.to_string_lossy().starts_with(&format!("tsan-{backend}"))).unwrap_or(false) {
                continue;
            }
            let text = std::fs::read_to_string(&p).unwrap_or_default();
            for block in text.split("==================").filter(|b| b.contains("WARNING: ThreadSanitizer")) {
                reports += 1;
                let kind = block.lines().find(|l| l.contains("WARNING: ThreadSanitizer")).unwrap_or("").split("ThreadSanitizer:").nth(1).unwrap_or("").split('(').next().unwrap_or("").trim().to_string();
                // first frame inside an mdk crate
                let frame = block.lines().find(|l| l.contains("mdk_") && l.trim_start().starts_with('#')).map(|l| {
                    let f = l.split_whitespace().skip(1).find(|w| w.contains("mdk_")).unwrap_or("");
                    f.split('<').next().unwrap_or(f).to_string()
                });
                if let Some(f) = frame {
                    in_repo.insert(format!("{kind} @ {f}"));
                    out.violation(format!("C19|tsan-report|{kind}|{backend}|{}", crate::util::first_words(&f, 1)), format!("ThreadSanitizer: {kind} with a frame in {f}:\n{}", crate::util::short(block, 1500)), json!({"tsan": true, "backend": backend}));
                } else {
                    out.note("tsan_reports_without_mdk_frame_info", kind);
                }
            }
            let _ = std::fs::remove_file(&p);
        }
        out.add("tsan_reports_total", reports);
        out.add("tsan_reports_with_mdk_frame", in_repo.len() as u64);
    }
    let _ = std::fs::remove_dir_all(&logdir);
}

fn miri_pass(ctx: &Ctx, out: &mut Outcome) {
    let hd = harness_dir(ctx);
    let seeds: Vec<u64> = (0..ctx.tier.pick(2, 16)).map(|k| ctx.seed.wrapping_mul(31).wrapping_add(k)).collect();
    // build once (sequentially), then run the seeds in parallel
    let run_one = |seed: u64| -> (u64, Result<ChildEnd, std::io::Error>, String, String) {
        let child = std::process::Command::new("cargo")
            .args(["+nightly", "miri", "run", "--no-default-features", "--target-dir", "target-miri", "--offline", "--", "C19", "--seed", &seed.to_string()])
            .current_dir(&hd)
            .env("MIRIFLAGS", "-Zmiri-disable-isolation -Zmiri-permissive-provenance")
            .env("CARGO_NET_OFFLINE", "true")
            .stdout(std::process::Stdio::piped())
            .stderr(std::process::Stdio::piped())
            .spawn();
        let Ok(child) = child else { return (seed, Err(std::io::Error::other("spawn")), String::new(), String::new()) };
        match wait_capture(child, Duration::from_secs(1500)) {
            Ok((e, o, err)) => (seed, Ok(e), o, err),
            Err(e) => (seed, Err(e), String::new(), String::new()),
        }
    };
    let first = run_one(seeds[0]);
    let mut results = vec![first];
    let rest: Vec<(u64, Result<ChildEnd, std::io::Error>, String, String)> = std::thread::scope(|sc| {
        let hs: Vec<_> = seeds[1..].iter().map(|s| sc.spawn(move || run_one(*s))).collect();
        hs.into_iter().filter_map(|h| h.join().ok()).collect()
    });
    results.extend(rest);
    for (seed, st, stdout, stderr) in results {
        match st {
            Ok(ChildEnd::Exited(0)) => {
                out.count("miri_runs_clean");
                for l in stdout.lines().filter(|l| l.starts_with("MIRI ")) {
                    out.note("miri_workloads", l.split("ops=").next().unwrap_or(l).trim().to_string());
                    if let Some(n) = l.split("ops=").nth(1).and_then(|x| x.split(' ').next()).and_then(|x| x.parse::<u64>().ok()) {
                        out.add("miri_operations", n);
                    }
                }
            }
            Ok(ChildEnd::Exited(code)) => {
                // stderr was piped into the ChildEnd only for signals; re-run is cheap: classify by stdout
                let viol: Vec<&str> = stdout.lines().filter(|l| l.starts_with("MIRI-VIOLATION") || l.starts_with("MIRI-DIFF")).collect();
                if !viol.is_empty() {
                    out.violation(format!("C19|under-miri|{}", crate::util::first_words(viol[0], 3)), format!("seed {seed}: {}", viol[0]), json!({"miri_seed": seed}));
                } else if let Some(l) = stderr.lines().find(|l| l.contains("Undefined Behavior") || l.contains("Data race detected") || l.contains("deadlock")) {
                    // Miri itself stopped the program
                    let kind = if l.contains("Data race") { "data-race" } else if l.contains("deadlock") { "deadlock" } else { "undefined-behaviour" };
                    let at = stderr.lines().find(|x| x.contains("-->") && x.contains("mdk-")).unwrap_or("").trim().to_string();
                    out.violation(format!("C19|miri-error|{kind}"), format!("cargo miri run (seed {seed}): {}\n{at}\nre-run: cd /verif/harness && MIRIFLAGS='-Zmiri-disable-isolation -Zmiri-permissive-provenance' cargo +nightly miri run --no-default-features --target-dir target-miri -- C19 --seed {seed}", l.trim()), json!({"miri_seed": seed, "stderr_tail": crate::util::tail(&stderr, 3000)}));
                } else if stderr.contains("unsupported operation") || stderr.contains("could not compile") || stderr.contains("error[E") {
                    let why = if stderr.contains("unsupported operation") { "Miri met an operation it does not support" } else { "the Miri build of the harness failed" };
                    out.inconclusive.push(format!("Miri seed {seed}: {why} (exit {code})"));
                } else if stderr.contains("panicked at") {
                    let l = stderr.lines().find(|l| l.contains("panicked at")).unwrap_or("");
                    out.violation("C19|miri-error|panic".to_string(), format!("cargo miri run (seed {seed}) panicked: {}", crate::util::short(l, 300)), json!({"miri_seed": seed}));
                } else {
                    out.inconclusive.push(format!("Miri seed {seed}: exit {code} without a harness verdict or a Miri diagnosis: {}", crate::util::tail(&stderr, 400)));
                }
            }
            Ok(ChildEnd::TimedOut) => out.inconclusive.push(format!("Miri seed {seed}: watchdog fired")),
            Ok(ChildEnd::Signal(s, e)) => out.inconclusive.push(format!("Miri seed {seed}: signal {s} {}", crate::util::short(&e, 200))),
            Err(e) => out.inconclusive.push(format!("Miri could not be started: {e}")),
        }
    }
}

pub fn run(ctx: &Ctx) -> i32 {
    let dir = ctx.scratch_dir("c19");
    let n = ctx.budget(300, 20_000) as u64;
    // the rounds run in child processes (a deadlock of the workers must be reportable); the two
    // sanitizer passes (their builds included) run next to them
    let sanitize = std::env::var("VERIF_SKIP_SANITIZERS").is_err();
    let mut out = std::thread::scope(|sc| {
        let t = sanitize.then(|| {
            sc.spawn(|| {
                let mut o = Outcome::default();
                tsan_pass(ctx, &mut o);
                o
            })
        });
        let m = sanitize.then(|| {
            sc.spawn(|| {
                let mut o = Outcome::default();
                miri_pass(ctx, &mut o);
                o
            })
        });
        let mut out = rounds_pass(ctx, n);
        for h in [t, m].into_iter().flatten() {
            if let Ok(o) = h.join() {
                out.merge(o);
            }
        }
        out
    });
    match crate::vstore::stress::checker_selftest() {
        Ok(()) => out.info.push("history checker self-test: a new-old inversion between two overlapping writes is rejected, the linearizable variant accepted".into()),
        Err(e) => out.inconclusive.push(format!("history checker self-test failed (harness error): {e}")),
    }
    let _ = std::fs::remove_dir_all(&dir);
    if !sanitize {
        out.inconclusive.push("sanitizer passes skipped (VERIF_SKIP_SANITIZERS set)".into());
    }
    let floors = vec![
        Floor { what: "histories (memory)", have: out.get("histories_memory"), need: 100 },
        Floor { what: "histories (sqlite)", have: out.get("histories_sqlite"), need: 100 },
        Floor { what: "reads matched to the write they observed", have: out.get("reads_matched_to_writes"), need: 20_000 },
        Floor { what: "reads that overlapped their write (real concurrency observed)", have: out.get("reads_overlapping_their_write"), need: 200 },
        Floor { what: "operations released together and checked against the model", have: out.get("operations_released_together_and_checked_against_the_model"), need: 20_000 },
        Floor { what: "distinct operation sets raced", have: out.sets.get("operation_sets_raced").map(|s| s.len()).unwrap_or(0) as u64, need: 150 },
        Floor { what: "rollback / re-take calls racing on one snapshot", have: out.get("calls_racing_on_one_snapshot"), need: 5000 },
        Floor { what: "snapshots taken under load and restored", have: out.get("snapshots_taken_under_load_and_restored"), need: 500 },
        Floor { what: "operations executed under ThreadSanitizer", have: out.get("tsan_operations"), need: 2000 },
        Floor { what: "clean Miri runs", have: out.get("miri_runs_clean"), need: 2 },
    ];
    finish(
        ctx,
        "exploration",
        "(a) 2-16 threads share one storage instance (memory, SQLite file) over few keys (2 shared groups + 1 group private to thread 0, 2 epochs, 2 wrapper ids); every written value embeds (thread, counter) in a field that round-trips (group name, secret bytes, relay URL path, failure reason), call/return stamps come from one global atomic counter at the client boundary; per key the history is decided by the complete test for registers with unique writes (Gibbons-Korach zones: no read before its write, no two values each observed throughout overlapping spans, no value confined inside another value's span), preceded by specific necessary conditions that give readable witnesses (value was written, not overwritten entirely before the read began, sequential reads monotonic), plus: relay listings never mix two replaces, the private group only ever shows thread 0's tags, no call fails or panics, no stall (all workers blocked without CPU for 15 s); a writer bumps epoch -> secret -> relays through versions while snapshotters take snapshots that are restored afterwards and must be a consistent cut; 2-8 threads roll back to one snapshot at the same instant (exactly one may succeed) and a rollback races with a re-take of the same snapshot name (the end state must be that of one of the two orders); ANY two or three operations of the storage operation language (mdk traits + OpenMLS storage provider, snapshots included) are released together after a random prefix, and results + complete read-out must equal what some order of them gives on the executable reference model. SQLite runs with tick-hook yields between critical sections. (b) the same workload in a -Zsanitizer=thread -Zbuild-std build, reports counted from the log, a report with an mdk_* frame is a violation. (c) cargo miri run of the memory-backend subset (single-threaded model differential, 3-thread stress, snapshot cut) with several seeds. distinct = histories in which at least one read overlapped the write it observed",
        out,
        floors,
        vec![
            "per-key linearizability is decided completely only for the register-like keys of this workload; the claims / snapshot-cut / rollback-readers workloads check their own stated conditions".into(),
            "SQLCipher's C code is not instrumented by TSan (its pthread mutexes are intercepted); Miri cannot cross the SQLite / secp256k1 FFI and runs the memory backend only".into(),
            "deadlock freedom is restated as bounded progress: a stall monitor inside every stress process reports when all worker threads are blocked (state S) without consuming CPU for 15 s; the parent's wall-clock watchdog firing without that is inconclusive".into(),
        ],
        json!({}),
    )
}
