//! History runner over the world simulator + the monitors of C01, C02, C07, C08, C18 (pointer
//! half) and C20. One generated history feeds all monitors; each check command reports only the
//! violations of its own property.

use std::collections::{BTreeMap, BTreeSet, HashMap};
use std::path::Path;

use mdk_core::prelude::*;
use mdk_storage_traits::groups::{MessageSortOrder, Pagination};
use serde_json::{Value, json};

use crate::report::Outcome;
use crate::rng::{Rng, fnv};
use crate::sim::scenario::*;
use crate::sim::*;
use crate::with_mdk;

pub struct Finding {
    pub prop: &'static str,
    pub signature: String,
    pub detail: String,
}

pub struct HistResult {
    pub findings: Vec<Finding>,
    pub schedule_hash: u64,
    pub rollbacks: usize,
    pub forks: usize,
    pub max_fork_width: usize,
    pub steps: usize,
    pub sample: Value,
    pub trace: Vec<String>,
    pub log: Value,
    pub counters: BTreeMap<String, u64>,
    pub sets: BTreeMap<String, BTreeSet<String>>,
    pub converged: bool,
    pub canonical_len: usize,
}

struct Mon {
    findings: Vec<Finding>,
    counters: BTreeMap<String, u64>,
    sets: BTreeMap<String, BTreeSet<String>>,
    /// C08: every nostr group id the mirror check has seen in force, per (client, group)
    seen_nostr_ids: BTreeMap<(usize, usize), BTreeSet<[u8; 32]>>,
}
impl Mon {
    fn count(&mut self, k: &str) {
        *self.counters.entry(k.into()).or_insert(0) += 1;
    }
    fn add(&mut self, k: &str, n: u64) {
        *self.counters.entry(k.into()).or_insert(0) += n;
    }
    fn note(&mut self, set: &str, v: impl Into<String>) {
        self.sets.entry(set.into()).or_default().insert(v.into());
    }
    fn find(&mut self, prop: &'static str, sig: String, detail: String) {
        if self.findings.len() < 50 {
            self.findings.push(Finding { prop, signature: sig, detail });
        }
    }
}

// --------------------------------------------------------------------------------------------
// per-step invariants
// --------------------------------------------------------------------------------------------

/// C08: for an Active group the stored record and relay set mirror the MLS state.
fn check_mirror(w: &World, m: usize, g: usize, mon: &mut Mon, ctx: &str) {
    let gid = w.gid(g);
    let c = &w.clients[m];
    let earlier_ids: Vec<[u8; 32]> = mon.seen_nostr_ids.get(&(m, g)).map(|s| s.iter().copied().collect()).unwrap_or_default();
    let mut in_force: Option<[u8; 32]> = None;
    let mut stale_probes = 0u64;
    let r: Option<(Vec<String>, u64)> = with_mdk!(c.mdk, x => {
        let rec = x.get_group(&gid).ok().flatten();
        match rec {
            Some(rec) if rec.state == group_types::GroupState::Active => {
                let grp = x.load_mls_group(&gid).ok().flatten();
                match grp {
                    None => Some((vec!["mls-group-missing".to_string()], 0)),
                    Some(grp) => {
                        let mut bad = vec![];
                        match NostrGroupDataExtension::from_group(&grp) {
                            Err(_) => bad.push("extension-unreadable".to_string()),
                            Ok(gd) => {
                                if rec.epoch != grp.epoch().as_u64() { bad.push("epoch".to_string()); }
                                if rec.name != gd.name { bad.push("name".into()); }
                                if rec.description != gd.description { bad.push("description".into()); }
                                if rec.admin_pubkeys != gd.admins { bad.push("admins".into()); }
                                if rec.image_hash != gd.image_hash { bad.push("image_hash".into()); }
                                if rec.image_key.as_ref().map(|k| **k) != gd.image_key { bad.push("image_key".into()); }
                                if rec.image_nonce.as_ref().map(|k| **k) != gd.image_nonce { bad.push("image_nonce".into()); }
                                if rec.nostr_group_id != gd.nostr_group_id { bad.push("nostr_group_id".into()); }
                                let rel = x.get_relays(&gid).unwrap_or_default();
                                if rel != gd.relays { bad.push("relays".into()); }
                                // routing: the id in force resolves to this group
                                use mdk_storage_traits::groups::GroupStorage;
                                use openmls_traits::OpenMlsProvider;
                                match x.provider.storage().find_group_by_nostr_group_id(&gd.nostr_group_id) {
                                    Ok(Some(found)) if found.mls_group_id == gid => {}
                                    _ => bad.push("routing-by-id-in-force".into()),
                                }
                                // ... and an id that was in force earlier (rotated away, or rolled back
                                // with its commit) no longer resolves to this group
                                in_force = Some(gd.nostr_group_id);
                                for old in earlier_ids.iter().filter(|o| **o != gd.nostr_group_id) {
                                    stale_probes += 1;
                                    if let Ok(Some(found)) = x.provider.storage().find_group_by_nostr_group_id(old) {
                                        if found.mls_group_id == gid {
                                            bad.push("routing-by-id-not-in-force".into());
                                            break;
                                        }
                                    }
                                }
                            }
                        }
                        Some((bad, grp.epoch().as_u64()))
                    }
                }
            }
            _ => None,
        }
    });
    if let Some(id) = in_force {
        mon.seen_nostr_ids.entry((m, g)).or_default().insert(id);
    }
    mon.add("c08_stale_id_probes", stale_probes);
    if let Some((bad, epoch)) = r {
        mon.count("c08_mirror_checks");
        if !bad.is_empty() {
            mon.find("C08", format!("C08|mirror|{}|after={}", bad.join("+"), ctx_class(ctx)), format!("client c{m} group g{g} epoch {epoch}: stored record differs from MLS state in {:?} after {ctx}", bad));
        }
    }
}

fn ctx_class(ctx: &str) -> String {
    ctx.split_whitespace().next().unwrap_or("").to_string()
}

/// C18 (pointer half): last_message_id designates the first non-invalidated message of the
/// default order, or nothing.
fn check_pointer(w: &World, m: usize, g: usize, mon: &mut Mon, ctx: &str) {
    let gid = w.gid(g);
    let c = &w.clients[m];
    let r = with_mdk!(c.mdk, x => {
        let rec = x.get_group(&gid).ok().flatten();
        let msgs = x.get_messages(&gid, Some(Pagination::new(Some(10_000), Some(0)))).ok();
        let last = x.get_last_message(&gid, MessageSortOrder::CreatedAtFirst).ok();
        (rec, msgs, last)
    });
    let (Some(rec), Some(msgs), Some(last)) = r else { return };
    mon.count("c18_pointer_checks");
    // order check on the real listing
    for wnd in msgs.windows(2) {
        let a = &wnd[0];
        let b = &wnd[1];
        let ka = (a.created_at.as_secs(), a.processed_at.as_secs(), a.id);
        let kb = (b.created_at.as_secs(), b.processed_at.as_secs(), b.id);
        if ka < kb {
            mon.find("C18", "C18|order|history".into(), format!("client c{m}: get_messages not in documented order after {ctx}"));
            return;
        }
        if a.created_at == b.created_at {
            mon.count("c18_created_at_ties_seen");
        }
    }
    let head_all = msgs.first().map(|x| x.id);
    if last.as_ref().map(|x| x.id) != head_all {
        mon.find("C18", "C18|get_last_message-not-head|history".into(), format!("client c{m}: get_last_message != head of get_messages after {ctx}"));
    }
    let expect = msgs.iter().find(|x| x.state != message_types::MessageState::EpochInvalidated).map(|x| x.id);
    if msgs.iter().any(|x| x.state == message_types::MessageState::EpochInvalidated) {
        mon.count("c18_checks_with_invalidated_messages");
    }
    if rec.last_message_id != expect {
        let pred = if expect.is_none() {
            "pointer-set-but-no-valid-message"
        } else if rec.last_message_id.is_none() {
            "pointer-empty-but-valid-message-exists"
        } else if msgs.iter().any(|x| Some(x.id) == rec.last_message_id && x.state == message_types::MessageState::EpochInvalidated) {
            "pointer-designates-invalidated-message"
        } else if !msgs.iter().any(|x| Some(x.id) == rec.last_message_id) {
            "pointer-designates-missing-message"
        } else {
            "pointer-designates-older-message"
        };
        mon.find(
            "C18",
            format!("C18|pointer|{pred}"),
            format!("client c{m} group g{g}: last_message_id={:?} but first valid message of the default order is {:?} ({} stored) after {ctx}", rec.last_message_id.map(|i| i.to_hex()[..8].to_string()), expect.map(|i| i.to_hex()[..8].to_string()), msgs.len()),
        );
    }
}

/// C20: number of rollback snapshots bounded by the configured retention.
fn check_snapshots(w: &World, m: usize, g: usize, mon: &mut Mon, ctx: &str) {
    use openmls_traits::OpenMlsProvider;
    let gid = w.gid(g);
    let c = &w.clients[m];
    let retention = c.cfg.epoch_snapshot_retention;
    let list = with_mdk!(c.mdk, x => x.provider.storage().list_group_snapshots(&gid).ok());
    let Some(list) = list else { return };
    mon.count("c20_snapshot_checks");
    mon.note("c20_snapshot_counts_seen", format!("{}of{}", list.len(), retention));
    if list.len() > retention {
        mon.find("C20", format!("C20|count-exceeds-retention|after={}", ctx_class(ctx)), format!("client c{m}: {} snapshots > retention {} after {ctx}", list.len(), retention));
        return;
    }
    // names: snap_<gid>_<epoch>_<commit id>; the kept ones must be commits this client applied on
    // its current branch, i.e. their epochs are distinct and below the current epoch
    let cur = c.state(g, &gid).map(|s| s.1).unwrap_or(0);
    let mut epochs = vec![];
    for (name, _) in &list {
        let parts: Vec<&str> = name.split('_').collect();
        if parts.len() == 4 {
            if let Ok(e) = parts[2].parse::<u64>() {
                epochs.push((e, parts[3].to_string()));
            }
        }
    }
    let distinct: BTreeSet<u64> = epochs.iter().map(|e| e.0).collect();
    if distinct.len() != epochs.len() {
        mon.find("C20", format!("C20|two-snapshots-for-one-epoch|after={}", ctx_class(ctx)), format!("client c{m}: snapshots {:?} after {ctx}", epochs));
        return;
    }
    if epochs.iter().any(|(e, _)| *e >= cur) {
        mon.find("C20", format!("C20|snapshot-of-abandoned-branch|after={}", ctx_class(ctx)), format!("client c{m} at epoch {cur}: snapshots {:?} include an epoch >= current after {ctx}", epochs));
        return;
    }
    // each kept snapshot names the commit this client applied at that epoch on its current branch
    let mut applied: HashMap<u64, String> = HashMap::new();
    // replay the client's transitions: a transition from epoch e (via log idx) sets applied[e];
    // a rollback shows up as a transition whose `before` epoch is <= an earlier one: later entries win
    for (b, idx, _a) in &c.transitions {
        if b.0 != g {
            continue;
        }
        let real_idx = if *idx >= usize::MAX / 2 { usize::MAX - *idx } else { *idx };
        let is_merge = *idx >= usize::MAX / 2;
        // the commit was applied at the epoch it was created in (a rollback transition starts
        // from a later epoch)
        let at_epoch = w.log[real_idx].at.1;
        let _ = b;
        applied.retain(|e, _| *e < at_epoch);
        // rolled back to `at_epoch` and then refused: nothing was applied there
        let refused_after_rollback = _a.1 == at_epoch;
        if !is_merge && !refused_after_rollback {
            applied.insert(at_epoch, w.log[real_idx].ev.id.to_hex());
        }
    }
    for (e, id) in &epochs {
        match applied.get(e) {
            Some(a) if a == id => {}
            other => {
                mon.find("C20", format!("C20|snapshot-not-of-current-branch|after={}", ctx_class(ctx)), format!("client c{m}: snapshot for epoch {e} names commit {} but the commit applied there on the current branch is {:?} after {ctx}", &id[..8], other.map(|s| s[..8].to_string())));
                return;
            }
        }
    }
    // the kept ones are the most recent applied commits: every applied epoch newer than the oldest kept one is kept
    if let Some(min_kept) = epochs.iter().map(|e| e.0).min() {
        for (e, _) in applied.iter() {
            if *e > min_kept && !distinct.contains(e) {
                mon.find("C20", format!("C20|gap-in-kept-snapshots|after={}", ctx_class(ctx)), format!("client c{m}: applied commit at epoch {e} has no snapshot although older epoch {min_kept} is kept after {ctx}"));
                return;
            }
        }
    }
    if list.len() == retention && retention > 0 {
        mon.count("c20_checks_at_full_retention");
    }
}

fn step_monitors(w: &World, m: usize, mon: &mut Mon, ctx: &str) {
    for g in 0..w.groups.len() {
        if !w.groups[g].invited.contains(&m) {
            continue;
        }
        check_mirror(w, m, g, mon, ctx);
        check_pointer(w, m, g, mon, ctx);
        check_snapshots(w, m, g, mon, ctx);
    }
}

/// C07: re-deliver an event that has taken effect at `m`; nothing observable may change.
fn redelivery_probe(w: &mut World, m: usize, idx: usize, reps: usize, mon: &mut Mon, ctx: &str) {
    let g = w.log[idx].g;
    let gids: Vec<GroupId> = w.groups.iter().map(|x| x.gid.clone()).collect();
    // A stored message that a rollback made decryptable again would be re-saved with a new
    // processed_at (1 s granularity): for half of the re-deliveries of stored foreign messages at
    // clients that have rolled back since they stored them, wait for the wall-clock second to change first, so that a
    // rewrite cannot hide inside the second of the first processing.
    let c = &w.clients[m];
    let rolled_back_since = c.first_offer_seq.get(&idx).map(|s| *s < c.last_rollback_seq).unwrap_or(false);
    if w.log[idx].kind == PubKind::App && w.log[idx].author != m && rolled_back_since && c.first_result.get(&idx).map(|r| r == "ApplicationMessage").unwrap_or(false) && (idx + m) % 2 == 0 {
        let now = std::time::SystemTime::now().duration_since(std::time::UNIX_EPOCH).map(|d| d.subsec_millis()).unwrap_or(0);
        std::thread::sleep(std::time::Duration::from_millis(1020 - now as u64));
        mon.count("c07_redeliveries_after_second_boundary");
    }
    let before: Vec<Fp> = gids.iter().map(|gid| w.clients[m].fp(gid)).collect();
    let pat_before: Vec<String> = gids.iter().map(|gid| w.clients[m].processed_at_view(gid)).collect();
    let mut classes = vec![];
    for _ in 0..reps {
        let d = w.deliver(m, idx, OwnMode::Echo);
        classes.push(d.class.clone());
        if let Some(p) = d.panicked {
            mon.find("C07", "C07|panic".into(), format!("re-delivery of e{idx} to c{m} panicked: {p}"));
            return;
        }
        if d.produced.is_some() {
            // a re-delivered leave proposal made an admin auto-commit again: that is an effect
            mon.find("C07", format!("C07|redelivery-produced-commit|kind={:?}", w.log[idx].kind), format!("re-delivering e{idx} to c{m} produced a new commit ({ctx})"));
            return;
        }
    }
    let after: Vec<Fp> = gids.iter().map(|gid| w.clients[m].fp(gid)).collect();
    let pat_after: Vec<String> = gids.iter().map(|gid| w.clients[m].processed_at_view(gid)).collect();
    mon.count("c07_redeliveries");
    let p = &w.log[idx];
    let kind = match (p.kind, p.author == m) {
        (PubKind::App, true) => "own-message-echo",
        (PubKind::App, false) => "other-message",
        (PubKind::Commit, true) => "own-commit-echo",
        (PubKind::Commit, false) => "applied-or-superseded-commit",
        (PubKind::Proposal, true) => "own-proposal-echo",
        (PubKind::Proposal, false) => "queued-proposal",
    };
    let cur_epoch = w.clients[m].state(g, &gids[g]).map(|s| s.1).unwrap_or(0);
    let dist = cur_epoch.saturating_sub(p.at.1);
    mon.note("c07_cases", format!("{kind}|epochs-later={}|{}|result={}", dist.min(3), ctx, classes[0]));
    for (gi, (b, a)) in before.iter().zip(after.iter()).enumerate() {
        if b != a {
            let parts = b.diff(a);
            // history-derived predicate: earlier, a commit of this very epoch made this client roll
            // back and was then refused (the known "rollback before validation" finding); the
            // snapshot bookkeeping of that epoch is unreliable from then on
            let after_forced_rollback = p.kind == PubKind::Commit && w.clients[m].rollback_then_refused.iter().any(|r| w.log[*r].g == p.g && w.log[*r].at.1 == p.at.1);
            if after_forced_rollback && gi == g {
                mon.find(
                    "C07",
                    format!("C07|changed|{kind}|rolled-back-again|after-a-refused-commit-forced-a-rollback-in-that-epoch"),
                    format!("re-delivering e{idx} ({kind}, created at epoch {}) to c{m} at epoch {cur_epoch} x{reps} changed {:?} of group g{gi} after e{:?} had rolled this client back and been refused ({ctx})", p.at.1, parts, w.clients[m].rollback_then_refused),
                );
                return;
            }
            mon.find(
                "C07",
                format!("C07|changed|{kind}|parts={}|{}|result={}", parts.join("+"), if gi == g { "same-group" } else { "other-group" }, classes[0]),
                format!("re-delivering e{idx} ({kind}, created at epoch {}) to c{m} at epoch {cur_epoch} x{reps} changed {:?} of group g{gi}; e.g. {}: `{}` -> `{}` ({ctx})", p.at.1, parts, parts[0], crate::util::short(b.part(parts[0]), 200), crate::util::short(a.part(parts[0]), 200)),
            );
            return;
        }
    }
    for (gi, (b, a)) in pat_before.iter().zip(pat_after.iter()).enumerate() {
        if b != a {
            let (lb, la) = b.lines().zip(a.lines()).find(|(x, y)| x != y).unwrap_or(("", ""));
            mon.find(
                "C07",
                format!("C07|changed|{kind}|parts=PROCESSED_AT|{}|result={}", if gi == g { "same-group" } else { "other-group" }, classes[0]),
                format!("re-delivering e{idx} ({kind}, created at epoch {}) to c{m} at epoch {cur_epoch} x{reps} rewrote a stored message (processed_at / listing order changed) in group g{gi}: `{}` -> `{}` ({ctx})", p.at.1, crate::util::short(lb, 400), crate::util::short(la, 400)),
            );
            return;
        }
    }
}

// --------------------------------------------------------------------------------------------
// the history runner
// --------------------------------------------------------------------------------------------

pub struct HistCfg {
    pub sim: SimCfg,
    pub redelivery_pct: u32,
    pub judge_c01: bool,
    pub judge_c02: bool,
    pub keep_world: bool,
    /// C06 on ordinary histories: a delivery that reports failure must leave every group unchanged
    pub check_refusals: bool,
}

pub fn run_history(rng: &mut Rng, cfg: &HistCfg, dir: &Path, tag: &str) -> HistResult {
    let sim = &cfg.sim;
    let mut mon = Mon { findings: vec![], counters: BTreeMap::new(), sets: BTreeMap::new(), seen_nostr_ids: BTreeMap::new() };
    let mut w = World::empty(dir.to_path_buf(), tag.to_string());
    let n = rng.range(sim.members.0, sim.members.1);
    let mut mdk_cfg = sim.mdk_cfg.clone();
    mdk_cfg.epoch_snapshot_retention = sim.retention;
    let mut members = vec![];
    for _ in 0..n {
        let backend = if rng.chance(sim.sqlite_pct) { if sim.sqlcipher { BackendKind::SqlCipher } else { BackendKind::Sqlite } } else { BackendKind::Memory };
        members.push(w.add_client(backend, mdk_cfg.clone(), rng));
    }
    let oracle = w.add_client(BackendKind::Memory, mdk_cfg.clone(), rng);
    let n_admins = rng.range(1, n.min(3));
    let admins: Vec<usize> = (0..n_admins).collect();
    let g0 = w.create_group(&members, &admins, Some(oracle), "group-0");
    let mut group_list = vec![g0];
    if sim.second_group && n >= 3 {
        // a second group sharing some users (no oracle; used for isolation / routing checks)
        let sub: Vec<usize> = members.iter().copied().skip(1).collect();
        let g1 = w.create_group(&sub, &[sub[0]], None, "group-1");
        group_list.push(g1);
    }
    // warm-up: the creator commits `warmup_commits` times, everybody (SQLite members possibly
    // restarted in between) applies each commit in order
    for k in 0..sim.warmup_commits {
        w.t += 2;
        let t0 = w.t;
        let kind = if k % 3 == 0 { CommitKind::Rename } else { CommitKind::SelfUpdate };
        if let Some(ci) = w.act_commit(members[0], g0, &kind, t0, OwnMode::Immediate, k as u64, rng) {
            step_monitors(&w, members[0], &mut mon, "warm-up-commit");
            for &m in members.iter().skip(1) {
                if sim.restart_pct > 0 && w.clients[m].backend != BackendKind::Memory && rng.chance(12) {
                    w.clients[m].restart();
                    mon.count("restarts");
                    step_monitors(&w, m, &mut mon, "restart");
                }
                w.deliver(m, ci, OwnMode::Echo);
                step_monitors(&w, m, &mut mon, "process_message:Commit");
            }
        }
    }
    let mut schedule: Vec<Step> = vec![];
    let steps = rng.range(sim.steps.0, sim.steps.1);
    let mut rollbacks = 0usize;
    let mut forks = 0usize;
    let mut max_width = 0usize;
    let total_w = sim.w_fork + sim.w_msg + sim.w_leave + sim.w_deliver + sim.restart_pct;
    let mut left: BTreeSet<usize> = BTreeSet::new();
    for _step in 0..steps {
        w.t += 2;
        let g = *rng.pick(&group_list);
        let actors: Vec<usize> = (0..w.clients.len()).filter(|i| Some(*i) != w.groups[g].oracle && w.groups[g].invited.contains(i) && w.is_active(*i, g) && !left.contains(i)).collect();
        if actors.is_empty() {
            break;
        }
        let mut r = rng.below(total_w as usize) as u32;
        if r < sim.w_fork {
            // fork round: k members commit concurrently, each on its own current state
            let k = rng.range(1, sim.max_fork_width);
            let mut order = actors.clone();
            rng.shuffle(&mut order);
            // a non-admin that holds somebody's queued (leave) proposal commits more often than
            // chance alone would have it: its self_update sweeps the proposal into a commit that
            // every receiver refuses - refusals of authentic commits are what several monitors need
            if sim.w_leave > 0 && rng.chance(50) {
                order.sort_by_key(|m| !(w.clients[*m].queued_props.get(&g).map(|q| !q.is_empty()).unwrap_or(false) && !w.is_admin_now(*m, g)));
            }
            let mut made: Vec<usize> = vec![];
            for &m in order.iter() {
                if made.len() == k {
                    break;
                }
                if w.clients[m].pending_own.contains_key(&g) {
                    continue;
                }
                if sim.bounded_depth {
                    // flow control: (a) catch up on overdue commits before moving on, (b) do not
                    // open a fork more than `retention` epochs below the most advanced member (a fork of
                    // depth == retention is the boundary the library still has to resolve: the oldest
                    // retained snapshot and the oldest exporter secret tried are exactly that far back)
                    if let Some(od) = w.overdue_commit(m, g, sim.retention, sim.causal, sim.proposals_first) {
                        let d = w.deliver(m, od, OwnMode::Echo);
                        schedule.push(Step::Deliver { m, idx: od });
                        rollbacks += d.rollbacks.len();
                        step_monitors(&w, m, &mut mon, &format!("process_message:{}", d.class));
                        continue;
                    }
                    let gid = w.gid(g);
                    let cur = w.clients[m].state(g, &gid).map(|s| s.1).unwrap_or(0);
                    if cur + (sim.retention as u64) < w.max_epoch(g) {
                        continue;
                    }
                }
                let admin = w.is_admin_now(m, g);
                let kind = pick_commit_kind(rng, sim, admin);
                let ts_off = rng.below(2) as u64;
                let mode = if rng.chance(sim.immediate_pct) { OwnMode::Immediate } else { OwnMode::Echo };
                let arg = rng.next() % 1_000_000;
                let ts = w.t + ts_off;
                if let Some(idx) = w.act_commit(m, g, &kind, ts, mode, arg, rng) {
                    schedule.push(Step::Commit { m, g, kind: kind.clone(), ts_off, mode, arg });
                    made.push(idx);
                    mon.note("commit_kinds", format!("{kind:?}"));
                    mon.note("own_modes", format!("{mode:?}"));
                    step_monitors(&w, m, &mut mon, "commit-created");
                    // immediate joiners
                    let welcomes = w.log[idx].welcomes.clone();
                    for (j, _) in welcomes {
                        if rng.chance(50) {
                            w.join(j, idx);
                            step_monitors(&w, j, &mut mon, "accept_welcome");
                        }
                    }
                }
            }
            // width = number of commits now in the log created on the same state
            for idx in &made {
                let at = w.log[*idx].at.clone();
                let width = w.log.iter().filter(|p| p.kind == PubKind::Commit && p.at == at).count();
                max_width = max_width.max(width);
                if width > 1 {
                    forks += 1;
                }
            }
            continue;
        }
        r -= sim.w_fork;
        if r < sim.w_msg {
            let m = *rng.pick(&actors);
            // one rumor in twelve is post-dated (a sender whose clock runs ahead): the timestamp the
            // sender gave it is what every client has to store
            let rumor_ts = if rng.chance(8) {
                std::time::SystemTime::now().duration_since(std::time::UNIX_EPOCH).map(|d| d.as_secs()).unwrap_or(w.base_ts) + 3600 + rng.below(3) as u64
            } else {
                w.base_ts + rng.below(sim.rumor_ts_values.max(1) as usize) as u64
            };
            if w.act_message(m, g, rumor_ts).is_some() {
                schedule.push(Step::Msg { m, g });
                step_monitors(&w, m, &mut mon, "create_message");
            }
            continue;
        }
        r -= sim.w_msg;
        if r < sim.w_leave {
            // a non-admin, non-creator member asks to leave (at most one third of the group)
            let cands: Vec<usize> = actors.iter().copied().filter(|m| !w.is_admin_now(*m, g)).collect();
            if !cands.is_empty() && left.len() * 3 < actors.len() {
                let m = *rng.pick(&cands);
                if w.act_leave(m, g).is_some() {
                    left.insert(m);
                    schedule.push(Step::Leave { m, g });
                    step_monitors(&w, m, &mut mon, "leave_group");
                }
            }
            continue;
        }
        r -= sim.w_leave;
        if r < sim.restart_pct {
            let cands: Vec<usize> = actors.iter().copied().filter(|m| w.clients[*m].backend != BackendKind::Memory).collect();
            if !cands.is_empty() {
                let m = *rng.pick(&cands);
                w.clients[m].restart();
                w.note(format!("R m{m} restarted"));
                schedule.push(Step::Restart { m });
                mon.count("restarts");
                step_monitors(&w, m, &mut mon, "restart");
            }
            continue;
        }
        // now and then: a member prepares a commit and abandons it (never published):
        // create -> clear_pending_commit must leave everything as it was
        if rng.chance(4) {
            let m = *rng.pick(&actors);
            if !w.clients[m].pending_own.contains_key(&g) {
                let gid = w.gid(g);
                let before = w.clients[m].fp(&gid);
                mdk_core::verif::set_created_at(Some(w.t));
                let admin = w.is_admin_now(m, g);
                let made = if admin && rng.chance(50) {
                    with_mdk!(w.clients[m].mdk, x => x.update_group_data(&gid, NostrGroupDataUpdate::new().name(format!("abandoned-{}", w.t)))).is_ok()
                } else {
                    with_mdk!(w.clients[m].mdk, x => x.self_update(&gid)).is_ok()
                };
                if made {
                    step_monitors(&w, m, &mut mon, "commit-created-not-published");
                    let cleared = with_mdk!(w.clients[m].mdk, x => x.clear_pending_commit(&gid));
                    mon.count("abandoned_commits");
                    w.note(format!("A m{m} prepared a commit and abandoned it (clear_pending_commit ok={})", cleared.is_ok()));
                    let after = w.clients[m].fp(&gid);
                    if before != after {
                        let parts = before.diff(&after);
                        mon.find("C08", format!("C08|abandoned-commit-left-a-trace|parts={}", parts.join("+")), format!("c{m}: create commit + clear_pending_commit changed {:?}; e.g. {}: `{}` -> `{}`", parts, parts[0], crate::util::short(before.part(parts[0]), 200), crate::util::short(after.part(parts[0]), 200)));
                    }
                    step_monitors(&w, m, &mut mon, "clear_pending_commit");
                }
            }
            continue;
        }
        // delivery
        let all: Vec<usize> = (0..w.clients.len()).filter(|i| Some(*i) != w.groups[g].oracle && w.groups[g].invited.contains(i)).collect();
        let m = *rng.pick(&all);
        let cand: Vec<usize> = (0..w.log.len()).filter(|i| w.log[*i].g == g && w.eligible(m, *i, sim.causal, sim.proposals_first) && (!w.clients[m].seen.contains(i) || (w.log[*i].author == m && !w.clients[m].first_result.contains_key(i)) || rng.chance(sim.dup_pct))).collect();
        if cand.is_empty() {
            continue;
        }
        let mut idx = *rng.pick(&cand);
        if sim.bounded_depth
            && let Some(od) = w.overdue_commit(m, g, sim.retention, sim.causal, sim.proposals_first)
        {
            idx = od;
        }
        let auto_mode = if rng.chance(sim.immediate_pct) { OwnMode::Immediate } else { OwnMode::Echo };
        let snap_before = if cfg.check_refusals { Some(crate::props::c06::client_snapshot(&w, m)) } else { None };
        let d = w.deliver(m, idx, auto_mode);
        schedule.push(Step::Deliver { m, idx });
        if let Some(b) = snap_before
            && is_refusal(&d.class)
        {
            mon.count("c06_history_refusals_checked");
            mon.note("c06_history_refusal_kinds", format!("{:?}:{}", w.log[idx].kind, d.class));
            let a = crate::props::c06::client_snapshot(&w, m);
            if let Some((which, parts)) = crate::props::c06::snapshot_diff(&b, &a) {
                let pred = if !d.rollbacks.is_empty() { "rolled-back-then-refused" } else if w.log[idx].kind == PubKind::Proposal && parts == vec!["PEND"] { "proposal-queued-then-refused" } else { "no-rollback" };
                mon.find(
                    "C06",
                    if pred == "rolled-back-then-refused" {
                        // why was it refused after the rollback it caused? (computed from the history, so
                        // that a rollback which LOSES something that had been there is not mistaken for
                        // the known "rollback happens before validation" finding)
                        let refs = &w.log[idx].refs;
                        let c = &w.clients[m];
                        let missing = refs.iter().any(|r| w.log[*r].author != m && !matches!(c.first_result.get(r).map(|s| s.as_str()), Some("PendingProposal") | Some("Proposal(auto-commit)")));
                        let why = if d.class == "Err(CommitFromNonAdmin)" {
                            "commit-not-authorised"
                        } else if missing {
                            "references-proposal-that-never-entered-the-queue"
                        } else if !refs.is_empty() {
                            "references-proposals-that-had-been-queued"
                        } else {
                            "other"
                        };
                        format!("C06|refused-but-changed|history:{:?}|{pred}|{why}", w.log[idx].kind)
                    } else { format!("C06|refused-but-changed|history:{:?}|parts={}|{pred}|result={}", w.log[idx].kind, parts.join("+"), d.class) },
                    format!("c{m} answered e{idx} ({:?} by m{}: {}) with {} but {which} changed in {:?}", w.log[idx].kind, w.log[idx].author, w.log[idx].what, d.class, parts),
                );
            }
        }
        rollbacks += d.rollbacks.len();
        if let Some(p) = &d.panicked {
            mon.find("C06", "C06|panic|history".into(), format!("process_message panicked: {p}"));
        }
        mon.note("delivery_results", d.class.clone());
        if !d.rollbacks.is_empty() {
            let depth = d.before.as_ref().map(|b| b.1).unwrap_or(0).saturating_sub(d.rollbacks[0].target_epoch);
            mon.note("rollback_depths", depth.to_string());
        }
        step_monitors(&w, m, &mut mon, &format!("process_message:{}", d.class));
        if rng.chance(cfg.redelivery_pct) && !w.clients[m].effective.is_empty() {
            let eff: Vec<usize> = w.clients[m].effective.iter().copied().collect();
            let pick = *rng.pick(&eff);
            let reps = rng.range(1, 3);
            redelivery_probe(&mut w, m, pick, reps, &mut mon, "mid-history");
        }
    }

    // ---- end of the driven phase: canonical chain, joins, fixpoint -------------------------
    let g = g0;
    let (chain, states) = w.oracle_walk(g);
    // joiners of canonical add-commits that have not joined yet
    for &ci in &chain {
        let welcomes = w.log[ci].welcomes.clone();
        for (j, _) in welcomes {
            let gid = w.gid(g);
            if w.clients[j].group_state(&gid).is_none() {
                w.join(j, ci);
            }
        }
    }
    let all: Vec<usize> = (0..w.clients.len()).filter(|i| Some(*i) != w.groups[g].oracle && w.groups[g].invited.contains(i)).collect();
    // Commits that members produce while catching up during the fixpoint (an admin that reaches a
    // state late and auto-commits a queued leave) get a wrapper timestamp later than everything
    // published so far - as a wall clock would give them. Otherwise such a commit could tie with,
    // and by its random id beat, a commit of a state the oracle replica has already left: the
    // reference chain would then be wrong, not the members (a false alarm seen once at seed 1).
    let latest = w.log.iter().map(|p| p.ev.created_at.as_secs()).max().unwrap_or(0);
    w.t = w.t.max(latest) + 1;
    let mut fix_rollbacks = 0;
    let (passes, reached_fix) = w.fixpoint(g, &all, sim.causal, sim.proposals_first, 12, |w2, m, _i, d| {
        fix_rollbacks += d.rollbacks.len();
        let _ = (w2, m);
    });
    rollbacks += fix_rollbacks;
    mon.note("fixpoint_passes", passes.to_string());
    for &m in &all {
        step_monitors(&w, m, &mut mon, "fixpoint");
    }
    // the oracle may need a second walk: members' auto-commits produced during the fixpoint
    let (chain2, states2) = w.oracle_walk(g);
    let mut chain = chain;
    chain.extend(chain2);
    let mut states = states;
    for s in states2 {
        if states.last() != Some(&s) {
            states.push(s);
        }
    }
    if !chain.is_empty() && chain.len() > states.len() {
        // should not happen
    }
    // post-fixpoint C07 probes
    if cfg.redelivery_pct > 0 {
        for &m in &all {
            let eff: Vec<usize> = w.clients[m].effective.iter().copied().collect();
            for _ in 0..3.min(eff.len()) {
                let pick = *rng.pick(&eff);
                redelivery_probe(&mut w, m, pick, rng.range(1, 2), &mut mon, "after-fixpoint");
            }
            // every commit that took effect here, newest first (an applied commit that looks
            // "better than what is recorded for its epoch" would roll the group back)
            // ... first of all the commits applied in a state in which this client had REFUSED another
            // commit before (a refusal must leave no rollback bookkeeping behind that a later
            // re-delivery could trip over)
            let refused_at: Vec<StateKey> = w.clients[m].first_result.iter().filter(|(i, r)| w.log[**i].kind == PubKind::Commit && r.starts_with("Err(")).filter_map(|(i, _)| w.clients[m].first_offer_state.get(i).cloned().flatten()).collect();
            let after_refusal: Vec<usize> = w.clients[m].transitions.iter().filter(|t| refused_at.contains(&t.0) && t.1 < usize::MAX / 2).map(|t| t.1).collect();
            let non_admin_refusals = w.clients[m].first_result.values().filter(|r| r.contains("CommitFromNonAdmin")).count();
            mon.add("c07_refusals_commit_from_non_admin", non_admin_refusals as u64);
            for c in after_refusal.into_iter().take(4) {
                mon.count("c07_probes_of_commits_applied_after_a_refused_commit");
                redelivery_probe(&mut w, m, c, 1, &mut mon, "after-fixpoint-commit-applied-after-a-refusal");
            }
            let commits: Vec<usize> = eff.iter().copied().filter(|i| w.log[*i].kind == PubKind::Commit).rev().take(8).collect();
            for c in commits {
                redelivery_probe(&mut w, m, c, 1, &mut mon, "after-fixpoint-every-commit");
            }
        }
    }

    let mut converged = true;
    if cfg.judge_c01 {
        converged = judge_c01(&w, g, &chain, &states, reached_fix, sim, &mut mon);
    }
    if cfg.judge_c02 {
        judge_c02(&w, g, &chain, &states, sim, &mut mon);
    }

    mon.add("steps", schedule.len() as u64);
    let schedule_hash = fnv(serde_json::to_string(&schedule).unwrap().as_bytes());
    let sample = json!({
        "members": n, "admins": n_admins, "backends": w.clients.iter().map(|c| format!("{:?}", c.backend)).collect::<Vec<_>>(),
        "schedule": schedule.iter().take(60).collect::<Vec<_>>(), "schedule_len": schedule.len(),
        "canonical_chain": chain, "rollbacks": rollbacks, "forks": forks, "fixpoint_passes": passes,
    });
    let res = HistResult {
        findings: mon.findings,
        schedule_hash,
        rollbacks,
        forks,
        max_fork_width: max_width,
        steps: schedule.len(),
        sample,
        trace: w.trace.clone(),
        log: log_json(&w),
        counters: mon.counters,
        sets: mon.sets,
        converged,
        canonical_len: chain.len(),
    };
    w.cleanup();
    res
}

fn pick_commit_kind(rng: &mut Rng, sim: &SimCfg, admin: bool) -> CommitKind {
    if !admin {
        return CommitKind::SelfUpdate;
    }
    let mut kinds = vec![CommitKind::SelfUpdate, CommitKind::SelfUpdate, CommitKind::Rename, CommitKind::Rename, CommitKind::Describe, CommitKind::Relays, CommitKind::Image];
    if sim.allow_rotate_nid {
        for _ in 0..=sim.rotate_boost {
            kinds.push(CommitKind::RotateNid);
        }
    }
    if sim.allow_admin_change {
        kinds.push(CommitKind::Admins);
    }
    if sim.allow_add {
        kinds.push(CommitKind::Add);
    }
    if sim.allow_remove {
        kinds.push(CommitKind::Remove);
    }
    rng.pick(&kinds).clone()
}

// --------------------------------------------------------------------------------------------
// C01: convergence on the MIP-03-selected state
// --------------------------------------------------------------------------------------------

fn judge_c01(w: &World, g: usize, chain: &[usize], states: &[StateKey], reached_fix: bool, sim: &SimCfg, mon: &mut Mon) -> bool {
    let Some(o) = w.groups[g].oracle else { return true };
    let gid = w.gid(g);
    if !reached_fix {
        mon.find("C01", "C01|no-fixpoint".into(), "re-offering all events did not reach a fixpoint within 12 passes".into());
        return false;
    }
    let ofp = w.clients[o].fp(&gid);
    let final_members = w.members_at(o, g);
    let final_state = w.clients[o].state(g, &gid);
    let mut ok = true;
    mon.count("c01_scenarios_judged");
    for (ci, c) in w.clients.iter().enumerate() {
        if ci == o || !final_members.contains(&c.pk()) {
            continue;
        }
        if c.group_state(&gid).is_none() {
            // invited by a canonical add but the join failed: judged by C16
            continue;
        }
        mon.count("c01_members_compared");
        let mfp = c.fp(&gid);
        let role = member_role(w, ci, g);
        mon.note("c01_roles", role.clone());
        let active = c.group_state(&gid) == Some(group_types::GroupState::Active);
        if active && mfp.convergence_view() == ofp.convergence_view() {
            continue;
        }
        ok = false;
        // ---- classify from the recorded history ------------------------------------------
        let preds = classify_divergence(w, ci, g, chain, states, sim, &final_state, active);
        let clause = if !active { "inactive-but-member" } else if c.state(g, &gid) == final_state { "same-mls-state-different-view" } else { "diverged" };
        let parts = if active { mfp_parts(&mfp, &ofp) } else { "state".to_string() };
        // one explanatory predicate per signature, by priority; the rest only in the detail
        const PRIORITY: [&str; 11] = [
            "fork-deeper-than-retention",
            "rotated-nostr-id-on-losing-branch",
            "earlier-invalid-commit-forces-rollback",
            "immediate-merge-lost-race",
            "applied-own-commit-that-validation-refuses",
            "evicted-on-losing-branch",
            "winner-refused-after-rollback-proposal-arrived-after-leaving-the-epoch",
            "commit-before-referenced-proposal",
            "ahead-of-epoch-marked-failed",
            "winner-marked-failed-while-on-another-branch",
            "restarted",
        ];
        let primary = PRIORITY.iter().find(|p| preds.iter().any(|x| x.starts_with(**p))).copied().unwrap_or("unexplained");
        if primary == "fork-deeper-than-retention" {
            // outside the bound the property states ("forks up to the configured retention depth")
            mon.count("c01_members_not_judged_fork_deeper_than_retention");
            continue;
        }
        mon.find(
            "C01",
            format!("C01|{clause}|{primary}"),
            format!("member c{ci} ({role}) ends at {:?} while the MIP-03 chain ends at {:?}; differing parts: {parts}; predicates {:?}", c.state(g, &gid).map(|s| (s.1, s.2[..6].to_string())), final_state.as_ref().map(|s| (s.1, s.2[..6].to_string())), preds),
        );
    }
    ok
}

fn mfp_parts(a: &Fp, b: &Fp) -> String {
    let (a1, a2, a3, a4, a5) = a.convergence_view();
    let (b1, b2, b3, b4, b5) = b.convergence_view();
    let mut v = vec![];
    if a1 != b1 {
        v.push("MLS");
    }
    if a2 != b2 {
        v.push("MEM");
    }
    if a3 != b3 {
        v.push("GD");
    }
    if a4 != b4 {
        v.push("REL");
    }
    if a5 != b5 {
        v.push("REC");
    }
    v.join("+")
}

fn member_role(w: &World, ci: usize, g: usize) -> String {
    // competing committer (won / lost) or bystander, and how it applied its own commits
    let mut commits = 0;
    let mut echo = 0;
    let mut imm = 0;
    for p in &w.log {
        if p.g == g && p.kind == PubKind::Commit && p.author == ci {
            commits += 1;
            if p.mode == OwnMode::Echo {
                echo += 1;
            } else {
                imm += 1;
            }
        }
    }
    if commits == 0 { "bystander".into() } else { format!("committer(echo={},immediate={})", echo.min(1), imm.min(1)) }
}

fn classify_divergence(w: &World, ci: usize, g: usize, chain: &[usize], states: &[StateKey], sim: &SimCfg, _final_state: &Option<StateKey>, active: bool) -> Vec<String> {
    let c = &w.clients[ci];
    let mut preds: BTreeSet<String> = BTreeSet::new();
    // d(M): last canonical state M reached
    let mut last = None;
    for (i, s) in states.iter().enumerate() {
        if c.reached.contains(s) {
            last = Some(i);
        }
    }
    // events that made M roll back and were then refused
    for idx in &c.rollback_then_refused {
        if !chain.contains(idx) {
            // a commit that is NOT on the canonical chain (validation refuses it everywhere)
            preds.insert("earlier-invalid-commit-forces-rollback".into());
        } else {
            // the MIP-03 winner itself was refused after the rollback it caused. If M never had the
            // proposals it carries by reference in its queue (they reached M only after M had left
            // that epoch on the losing branch) that is the known late-proposal limitation;
            // otherwise the rollback lost something that had been there: unexplained.
            let had_all = w.log[*idx].refs.iter().all(|p| w.log[*p].author == ci || matches!(c.first_result.get(p).map(|s| s.as_str()), Some("PendingProposal") | Some("Proposal(auto-commit)")));
            preds.insert(if had_all { "winner-refused-after-rollback-with-its-proposals-queued-before".to_string() } else { "winner-refused-after-rollback-proposal-arrived-after-leaving-the-epoch".to_string() });
        }
    }
    // M applied (on echo or by merging) an own commit that the library's validation refuses at
    // every other member (seen at the oracle replica)
    if let Some(o) = w.groups[g].oracle {
        for t in c.transitions.iter().filter(|t| t.0.0 == g) {
            let idx = if t.1 >= usize::MAX / 2 { usize::MAX - t.1 } else { t.1 };
            if w.log[idx].author == ci && w.clients[o].first_result.get(&idx).map(|r| r.starts_with("Err(")).unwrap_or(false) {
                preds.insert("applied-own-commit-that-validation-refuses".into());
            }
        }
    }
    let Some(di) = last else {
        preds.insert("never-on-canonical-chain".into());
        return preds.into_iter().collect();
    };
    if di + 1 >= states.len() || di >= chain.len() {
        // reached the final canonical state at some time but is not there now / view differs
        let gid = w.gid(g);
        if c.state(g, &gid).as_ref() != states.last() {
            preds.insert("left-final-state".into());
        } else {
            preds.insert("view-differs-at-final-state".into());
        }
        return preds.into_iter().collect();
    }
    let s = &states[di];
    let wi = chain[di]; // canonical winner at s
    let wp = &w.log[wi];
    // what did M do at s?
    let out: Vec<&(StateKey, usize, StateKey)> = c.transitions.iter().filter(|t| &t.0 == s).collect();
    let first_offer = c.first_offer_state.get(&wi);
    let offered_before_reaching = match first_offer {
        Some(Some(st)) => st != s && !(st.0 == s.0 && st.1 > s.1),
        Some(None) => true,
        None => false,
    };
    let first_class = c.first_result.get(&wi).cloned().unwrap_or_default();
    if first_offer.is_none() {
        preds.insert("winner-never-offered".into());
    }
    // The winner was first offered while M stood on ANOTHER branch at the same or a higher epoch and
    // had never been at s yet (it came to s later, through a rollback): the offer failed to decrypt,
    // was recorded Failed, and the record outlives the rollback - at s the winner is refused unseen.
    // (Needs a delivery order that hands M a commit before that commit's own predecessor.)
    {
        let reached_s_seq = c.transitions.iter().zip(c.transition_seq.iter()).filter(|(t, _)| &t.2 == s).map(|(_, q)| *q).min();
        if let (Some(Some(st)), Some(offer_seq), Some(reached)) = (first_offer, c.first_offer_seq.get(&wi), reached_s_seq)
            && st != s
            && st.0 == s.0
            && st.1 >= s.1
            && *offer_seq < reached
            && first_class.starts_with("Err(")
        {
            preds.insert("winner-marked-failed-while-on-another-branch".into());
        }
    }
    // M applied (through any path) a non-canonical commit that rotated the nostr group id: events
    // of the canonical branch carry an id M no longer routes
    let canon_set: BTreeSet<usize> = chain.iter().copied().collect();
    let rotated_off_chain = c.transitions.iter().any(|t| {
        let idx = if t.1 >= usize::MAX / 2 { usize::MAX - t.1 } else { t.1 };
        !canon_set.contains(&idx) && w.log[idx].what.starts_with("rotate nostr id")
    });
    if rotated_off_chain && first_class == "Err(GroupNotFound)" {
        preds.insert("rotated-nostr-id-on-losing-branch".into());
        return preds.into_iter().collect();
    }
    for t in &out {
        if t.1 >= usize::MAX / 2 {
            let own = usize::MAX - t.1;
            if own != wi {
                preds.insert("immediate-merge-lost-race".into());
            }
        } else if t.1 != wi {
            // applied a loser at s
            let loser = &w.log[t.1];
            let _ = loser;
            if !active {
                // M applied a non-canonical commit that removed it (an admin's remove, or the
                // losing auto-commit of its own leave request)
                preds.insert("evicted-on-losing-branch".into());
            }
            if loser.author == ci && loser.mode == OwnMode::Echo {
                preds.insert("applied-own-losing-commit-on-echo".into());
            }
        }
    }
    if offered_before_reaching && is_refusal(&first_class) {
        // winner (or an event before it) first offered before M reached its creation state
        if wp.refs.iter().any(|r| !c.first_result.contains_key(r) || c.first_offer_state.get(r).map(|x| x.as_ref() != Some(s)).unwrap_or(true)) && !wp.refs.is_empty() {
            preds.insert("commit-before-referenced-proposal".into());
        } else {
            preds.insert("ahead-of-epoch-marked-failed".into());
        }
    }
    // the winner was first offered before a proposal it carries by reference
    if let Some(ws) = c.first_offer_seq.get(&wi) {
        if wp.refs.iter().any(|r| c.first_offer_seq.get(r).map(|rs| rs > ws).unwrap_or(true)) {
            preds.insert("commit-before-referenced-proposal".into());
        }
    }
    if !wp.refs.is_empty() {
        // a referenced proposal that M never processed successfully while in state s
        for r in &wp.refs {
            let ok_at_s = c.first_offer_state.get(r).map(|x| x.as_ref() == Some(s)).unwrap_or(false) && !is_refusal(c.first_result.get(r).map(|x| x.as_str()).unwrap_or("Err("));
            if !ok_at_s {
                preds.insert("commit-before-referenced-proposal".into());
            }
        }
    }
    if c.restarts > 0 {
        preds.insert("restarted".into());
    }
    // depth of the fork when the winner was first offered: the snapshot of epoch s is pruned as soon
    // as M has moved more than `retention` epochs past it - what counts is the HIGHEST epoch M had
    // reached before that first offer (it may have rolled back part of the way since)
    if let Some(Some(st)) = first_offer {
        let fo_seq = c.first_offer_seq.get(&wi).copied().unwrap_or(usize::MAX);
        let highest = c.transitions.iter().zip(c.transition_seq.iter()).filter(|(t, sq)| t.0.0 == g && **sq < fo_seq).map(|(t, _)| t.2.1).max().unwrap_or(0).max(st.1);
        if highest > s.1 && (highest - s.1) as usize > sim.retention {
            preds.insert("fork-deeper-than-retention".into());
        }
    }
    if preds.is_empty() {
        preds.insert("unexplained".into());
    }
    preds.into_iter().collect()
}

// --------------------------------------------------------------------------------------------
// C02: application messages of the winning branch: exactly once, intact, valid
// --------------------------------------------------------------------------------------------

/// the wrapper's `h` tag names a nostr group id different from the one this client routed the
/// group by when the event was first offered to it (i.e. the id had been rotated away)
fn carries_other_nid(c: &Client, idx: usize, p: &Pub) -> bool {
    let h = p.ev.tags.iter().find(|t| t.kind() == nostr::TagKind::h()).and_then(|t| t.content().map(|s| s.to_string()));
    match (h, c.first_offer_nid.get(&idx)) {
        (Some(h), Some(Some(nid))) => h != hex::encode(nid),
        _ => false,
    }
}

fn judge_c02(w: &World, g: usize, _chain: &[usize], states: &[StateKey], sim: &SimCfg, mon: &mut Mon) {
    let Some(o) = w.groups[g].oracle else { return };
    let gid = w.gid(g);
    let canon: BTreeSet<&StateKey> = states.iter().collect();
    let final_state = w.clients[o].state(g, &gid);
    // membership per canonical state = oracle's member set after reaching it; reconstruct from the
    // oracle's transitions
    for (ci, c) in w.clients.iter().enumerate() {
        if ci == o || !w.groups[g].invited.contains(&ci) {
            continue;
        }
        // C02 judges only clients that converged (others are C01's business)
        if c.state(g, &gid) != final_state || c.group_state(&gid) != Some(group_types::GroupState::Active) {
            continue;
        }
        let msgs = with_mdk!(c.mdk, x => x.get_messages(&gid, Some(Pagination::new(Some(10_000), Some(0)))).unwrap_or_default());
        let by_id: HashMap<nostr::EventId, Vec<&message_types::Message>> = msgs.iter().fold(HashMap::new(), |mut m, x| {
            m.entry(x.id).or_default().push(x);
            m
        });
        for (idx, p) in w.log.iter().enumerate() {
            if p.g != g || p.kind != PubKind::App || p.adversarial {
                continue;
            }
            let rumor = p.rumor.as_ref().unwrap();
            let rid = rumor.id.unwrap();
            let copies = by_id.get(&rid).map(|v| v.len()).unwrap_or(0);
            let on_canon = canon.contains(&p.at);
            if on_canon {
                // was this client a member in that epoch? it was iff it ever reached that very state
                let was_member = c.reached.contains(&p.at);
                if !was_member {
                    continue;
                }
                // outside the configured past-epoch window at first delivery => not demanded
                let window = (sim.mdk_cfg.max_past_epochs as u64).min(5);
                if let Some(Some(sf)) = c.first_offer_state.get(&idx)
                    && sf.1.saturating_sub(p.at.1) > window
                {
                    mon.count("c02_messages_outside_past_epoch_window");
                    // still: never duplicated
                    if copies > 1 {
                        mon.find("C02", "C02|duplicate|outside-window".into(), format!("message e{idx} has {copies} copies at c{ci}"));
                    }
                    continue;
                }
                mon.count("c02_due_messages_checked");
                if copies != 1 {
                    let first = c.first_result.get(&idx).cloned().unwrap_or("never-offered".into());
                    let st_at_first = c.first_offer_state.get(&idx).cloned().flatten();
                    let pred = if first == "Err(GroupNotFound)" && carries_other_nid(c, idx, p) {
                        // the wrapper carries the nostr group id in force when it was created; the
                        // receiver had already applied a rotation
                        "tagged-with-retired-nostr-id"
                    } else if p.author == ci {
                        "own-message"
                    } else if st_at_first.as_ref().map(|s| s.1 < p.at.1).unwrap_or(false) {
                        "first-offered-before-reaching-its-epoch"
                    } else if st_at_first.as_ref().map(|s| !canon.contains(s)).unwrap_or(false) {
                        "first-offered-on-losing-branch"
                    } else if st_at_first.as_ref().map(|s| s.1 > p.at.1).unwrap_or(false) {
                        "first-offered-in-later-epoch"
                    } else {
                        "unexplained"
                    };
                    mon.find("C02", format!("C02|copies={}|{pred}|first-result={}", copies.min(2), first), format!("canonical message e{idx} `{}` (epoch {}) has {copies} stored copies at converged member c{ci}", p.what, p.at.1));
                    continue;
                }
                let m = by_id[&rid][0];
                let intact = m.pubkey == rumor.pubkey && m.kind == rumor.kind && m.created_at == rumor.created_at && m.content == rumor.content && m.tags == rumor.tags;
                if !intact {
                    mon.find("C02", "C02|altered".into(), format!("message e{idx} stored with altered fields at c{ci}"));
                }
                let valid = if p.author == ci { m.state == message_types::MessageState::Processed } else { m.state == message_types::MessageState::Processed };
                if !valid {
                    let st_at_first = c.first_offer_state.get(&idx).cloned().flatten();
                    let pred = if p.author == ci && m.state == message_types::MessageState::Created && c.first_result.get(&idx).map(|x| x == "Err(GroupNotFound)").unwrap_or(false) && carries_other_nid(c, idx, p) {
                        "own-echo-tagged-with-retired-nostr-id"
                    } else if p.author == ci && m.state == message_types::MessageState::Created {
                        "own-copy-not-confirmed"
                    } else if m.state == message_types::MessageState::EpochInvalidated && m.epoch.map(|e| e != p.at.1).unwrap_or(false) {
                        "filed-under-receiver-epoch-then-invalidated"
                    } else if m.state == message_types::MessageState::EpochInvalidated && st_at_first.as_ref().map(|s| !canon.contains(s)).unwrap_or(false) {
                        "processed-on-losing-branch-then-invalidated"
                    } else if m.state == message_types::MessageState::EpochInvalidated {
                        "invalidated-though-canonical"
                    } else {
                        "unexplained"
                    };
                    mon.find("C02", format!("C02|not-valid|state={:?}|{pred}", m.state), format!("canonical message e{idx} `{}` (sent at epoch {}, stored epoch {:?}) is {:?} at converged member c{ci}", p.what, p.at.1, m.epoch, m.state));
                }
            } else {
                // losing branch: must not be left valid
                mon.count("c02_losing_branch_messages_checked");
                if let Some(v) = by_id.get(&rid) {
                    for m in v {
                        if m.state == message_types::MessageState::Processed || m.state == message_types::MessageState::Created {
                            let pred = if p.author == ci { "own-message" } else { "other" };
                            mon.find("C02", format!("C02|losing-branch-message-left-valid|{pred}|state={:?}", m.state), format!("message e{idx} `{}` created on a losing branch (epoch {}) is {:?} at converged member c{ci}", p.what, p.at.1, m.state));
                        }
                    }
                }
            }
        }
    }
}
