//! Check commands built on the history runner: C01, C02, C07, C08, C20 (and the pointer half of C18).

use std::time::Duration;

use serde_json::json;

use super::hist::{HistCfg, run_history};
use crate::report::{Ctx, Floor, Outcome, Tier, finish};
use crate::rng::Rng;
use crate::sim::scenario::SimCfg;

#[derive(Clone, Copy, Debug, PartialEq, Eq)]
pub enum Regime {
    Clean,
    Immediate,
    Unrestricted,
    CausalNoPropFirst,
    Roster,
    Restart,
    RotateRace,
}

pub fn regime_cfg(r: Regime, rng: &mut Rng, sqlite_pct: u32) -> SimCfg {
    let mut c = SimCfg::clean();
    c.sqlite_pct = sqlite_pct;
    c.retention = *rng.pick(&[5usize, 5, 5, 3, 2, 1]);
    c.allow_rotate_nid = false;
    match r {
        Regime::Clean => {}
        Regime::RotateRace => {
            c.allow_rotate_nid = true;
        }
        Regime::Immediate => {
            c.immediate_pct = 50;
        }
        Regime::Unrestricted => {
            c.causal = false;
            c.proposals_first = false;
            c.bounded_depth = false;
        }
        Regime::CausalNoPropFirst => {
            c.proposals_first = false;
            c.w_leave = 6;
        }
        Regime::Roster => {
            c.allow_add = true;
            c.allow_remove = true;
            c.w_leave = 6;
        }
        Regime::Restart => {
            c.sqlite_pct = 100;
            c.restart_pct = 6;
        }
    }
    c
}

/// C20, time-to-live half: snapshots of real ages 0..3 s, start-up with ttl in {0,1,2,3,10}.
fn c20_ttl(ctx: &Ctx, out: &mut Outcome) {
    use crate::sim::scenario::*;
    use crate::sim::*;
    use mdk_storage_traits::MdkStorageProvider;
    use openmls_traits::OpenMlsProvider;
    let dir = ctx.scratch_dir("c20ttl");
    let cases = ctx.tier.pick(6usize, 24);
    let results = std::sync::Mutex::new(Outcome::default());
    std::thread::scope(|sc| {
        for case in 0..cases {
            let dir = dir.clone();
            let results = &results;
            sc.spawn(move || {
                let mut o = Outcome::default();
                let mut rng = Rng::for_scenario(ctx.seed, "C20-ttl", case as u64);
                let sub = dir.join(format!("k{case}"));
                let _ = std::fs::create_dir_all(&sub);
                let mut w = World::empty(sub.clone(), format!("ttl-{case}"));
                let mut cfg = mdk_core::MdkConfig::default();
                cfg.epoch_snapshot_retention = 5;
                let m = w.add_client(BackendKind::Memory, cfg.clone(), &mut rng);
                let s = w.add_client(BackendKind::Sqlite, cfg.clone(), &mut rng);
                let g = w.create_group(&[m, s], &[m], None, "ttl");
                let gid = w.gid(g);
                // 4 commits applied by s, ~1.1 s apart => snapshots of different ages
                for k in 0..4 {
                    w.t += 2;
                    let t = w.t;
                    if let Some(c) = w.act_commit(m, g, &CommitKind::SelfUpdate, t, OwnMode::Immediate, 0, &mut rng) {
                        w.deliver(s, c, OwnMode::Echo);
                    }
                    if k < 3 {
                        std::thread::sleep(std::time::Duration::from_millis(1100));
                    }
                }
                let listed = crate::with_mdk!(w.clients[s].mdk, x => x.provider.storage().list_group_snapshots(&gid).unwrap_or_default());
                let db = w.clients[s].db_path.clone().unwrap();
                // close the original
                w.clients[s].mdk = AnyMdk::Mem(mdk_core::MDK::new(mdk_memory_storage::MdkMemoryStorage::default()));
                for ttl in [0u64, 1, 2, 3, 10] {
                    for attempt in 0..3 {
                        let copy = sub.join(format!("ttl-{case}-{ttl}.db"));
                        let _ = std::fs::remove_file(&copy);
                        std::fs::copy(&db, &copy).unwrap();
                        let now = || std::time::SystemTime::now().duration_since(std::time::UNIX_EPOCH).unwrap().as_secs();
                        let t0 = now();
                        let mut c2 = cfg.clone();
                        c2.snapshot_ttl_seconds = ttl;
                        let st = mdk_sqlite_storage::MdkSqliteStorage::new_unencrypted(&copy).unwrap();
                        let mdk = mdk_core::MDK::builder(st).with_config(c2).build();
                        let t1 = now();
                        if t0 != t1 {
                            // second boundary crossed while building: retry, not judged
                            o.count("c20_ttl_cases_retried");
                            if attempt == 2 {
                                o.inconclusive.push("ttl case crossed a second boundary three times".into());
                            }
                            continue;
                        }
                        let after = mdk.provider.storage().list_group_snapshots(&gid).unwrap_or_default();
                        let expect: Vec<&(String, u64)> = listed.iter().filter(|(_, created)| *created >= t0.saturating_sub(ttl)).collect();
                        o.count("c20_ttl_cases");
                        o.note("c20_ttl_outcomes", format!("ttl={ttl}: {} of {} survive", after.len(), listed.len()));
                        let got: Vec<&String> = after.iter().map(|x| &x.0).collect();
                        let exp: Vec<&String> = expect.iter().map(|x| &x.0).collect();
                        if got != exp {
                            let older_survived = after.iter().any(|(_, c)| *c < t0.saturating_sub(ttl));
                            o.violation(
                                format!("C20|ttl|{}", if older_survived { "expired-snapshot-survived-startup" } else { "young-snapshot-removed-at-startup" }),
                                format!("ttl={ttl} now={t0}: snapshots before start-up {:?}, after {:?}, expected survivors {}", listed.iter().map(|x| x.1).collect::<Vec<_>>(), after.iter().map(|x| x.1).collect::<Vec<_>>(), exp.len()),
                                json!({"kind": "ttl", "case": case, "ttl": ttl}),
                            );
                        }
                        drop(mdk);
                        let _ = std::fs::remove_file(&copy);
                        break;
                    }
                }
                w.cleanup();
                results.lock().unwrap().merge(o);
            });
        }
    });
    out.merge(results.into_inner().unwrap());
    let _ = std::fs::remove_dir_all(&dir);
}

pub fn run(ctx: &Ctx) -> i32 {
    let (prop, mut out) = run_outcome(ctx);
    if prop == "C20" && ctx.replay.is_none() {
        c20_ttl(ctx, &mut out);
    }
    if prop == "C07" && ctx.replay.is_none() && std::env::var("VERIF_ONLY").is_err() {
        // directed half: refused authentic commit + applied commit of the same epoch, then re-delivery
        let dir = ctx.scratch_dir("c07dir");
        let n = ctx.budget(240, 4000) as u64;
        let mut ctx2 = ctx.clone();
        ctx2.prop = "C07-directed".into();
        let o = crate::par::run(&ctx2, n, Duration::from_secs(ctx.tier.pick(40, 400)), |i, rng, out| super::c07dir::trial(i, rng, out, &dir));
        let _ = std::fs::remove_dir_all(&dir);
        out.add("c07dir_trials", o.evaluations);
        out.merge(o);
    }
    if prop == "C02" && ctx.replay.is_none() && (std::env::var("VERIF_ONLY").is_err() || std::env::var("VERIF_WIN_ONLY").is_ok()) {
        // windows half: reordering inside / outside the configured ratchet and past-epoch windows
        let dir = ctx.scratch_dir("c02win");
        let n = ctx.budget(120, 2400) as u64;
        let mut ctx2 = ctx.clone();
        ctx2.prop = "C02-windows".into();
        let only_win: Option<u64> = std::env::var("VERIF_WIN_ONLY").ok().and_then(|s| s.parse().ok());
        let o = crate::par::run(&ctx2, n, Duration::from_secs(ctx.tier.pick(60, 600)), |i, rng, out| {
            if only_win.map(|o| o == i).unwrap_or(true) {
                super::c02win::trial(i, rng, out, &dir)
            }
        });
        let _ = std::fs::remove_dir_all(&dir);
        out.add("c02win_trials", o.evaluations);
        out.merge(o);
    }
    let (rule, floors, assumptions) = describe(prop, &out, ctx);
    finish(ctx, "exploration", rule, out, floors, assumptions, json!({}))
}

pub fn run_outcome(ctx: &Ctx) -> (&'static str, Outcome) {
    let prop: &'static str = match ctx.prop.as_str() {
        "C01" => "C01",
        "C02" => "C02",
        "C07" => "C07",
        "C08" => "C08",
        "C20" => "C20",
        "C06" => "C06",
        _ => "C18",
    };
    let dir = ctx.scratch_dir(&prop.to_lowercase());
    let n = match prop {
        "C01" | "C02" => ctx.budget(3000, 60_000),
        _ => ctx.budget(1500, 30_000),
    } as u64;
    let deadline = Duration::from_secs(ctx.tier.pick(75, 1200));
    let thorough = ctx.tier == Tier::Thorough;
    let only: Option<u64> = std::env::var("VERIF_ONLY").ok().and_then(|s| s.parse().ok());
    let out = crate::par::run(ctx, n, deadline, |i, rng, out| {
        if let Some(o) = only
            && o != i
        {
            return;
        }
        // regime mix: mostly the clean regime of the property
        let r = rng.below(100);
        let regime = match prop {
            "C01" | "C02" => {
                if r < 60 { Regime::Clean } else if r < 68 { Regime::Immediate } else if r < 76 { Regime::Unrestricted } else if r < 84 { Regime::CausalNoPropFirst } else if r < 92 { Regime::Roster } else { Regime::RotateRace }
            }
            "C20" => {
                if r < 40 { Regime::Clean } else if r < 48 { Regime::Immediate } else if r < 58 { Regime::Roster } else if r < 66 { Regime::Unrestricted } else if r < 72 { Regime::CausalNoPropFirst } else if r < 80 { Regime::RotateRace } else { Regime::Restart }
            }
            "C08" => {
                // one history in five with nostr-id rotations, most of them with rotations as frequent as
                // all other admin commits together: a rotation that was applied and then loses its race
                // is rolled back, and the id it introduced must stop resolving to the group
                if r < 34 { Regime::Clean } else if r < 44 { Regime::Immediate } else if r < 56 { Regime::Roster } else if r < 64 { Regime::Unrestricted } else if r < 72 { Regime::CausalNoPropFirst } else if r < 92 { Regime::RotateRace } else { Regime::Restart }
            }
            _ => {
                if r < 40 { Regime::Clean } else if r < 52 { Regime::Immediate } else if r < 66 { Regime::Roster } else if r < 76 { Regime::Unrestricted } else if r < 84 { Regime::CausalNoPropFirst } else if r < 92 { Regime::RotateRace } else { Regime::Restart }
            }
        };
        // SQLite members: one history in twelve, and every third history of the regimes with leave
        // proposals (queued proposals are one of the tables a backend has to snapshot and restore)
        let leaves = matches!(regime, Regime::Roster | Regime::CausalNoPropFirst);
        let sqlite_pct = if i % 12 == 0 || (thorough && i % 5 == 0) || (leaves && i % 3 == 0) { 60 } else { 0 };
        let mut sim = regime_cfg(regime, rng, sqlite_pct);
        if matches!(prop, "C08" | "C20" | "C07") {
            // a second group sharing users: routing (C08), snapshots of one group must never be
            // counted, kept or released with another group's (C20), nothing of it may change on a
            // re-delivery in the first (C07)
            sim.second_group = rng.chance(40);
        }
        if prop == "C20" {
            sim.retention = *rng.pick(&[0usize, 1, 2, 3, 4, 5, 5, 6]);
            // every third history starts after 6..12 linear commits: epochs with two digits, a
            // full snapshot queue from the start, and (in the Restart regime) queues re-read from
            // storage that hold epochs 9 and 10 together
            if i % 3 == 0 {
                sim.warmup_commits = rng.range(6, 12);
            }
        }
        if prop == "C08" && regime == Regime::RotateRace && i % 5 != 0 {
            sim.rotate_boost = 6;
        }
        if matches!(prop, "C07" | "C08") && i % 7 == 0 {
            sim.warmup_commits = rng.range(6, 11);
        }
        if prop == "C18" {
            sim.w_msg = 40;
            sim.rumor_ts_values = 2;
        }
        let cfg = HistCfg { sim, redelivery_pct: if prop == "C07" { 25 } else { 0 }, judge_c01: prop == "C01" || prop == "C02", judge_c02: prop == "C02", keep_world: false, check_refusals: prop == "C06" };
        let tag = format!("{}-{}", prop.to_lowercase(), i);
        let res = run_history(rng, &cfg, &dir, &tag);
        out.evaluations += 1;
        out.note("regimes", format!("{regime:?}"));
        out.add(&format!("scenarios_{regime:?}"), 1);
        out.add("rollbacks_observed", res.rollbacks as u64);
        out.add("forks", res.forks as u64);
        out.note("max_fork_width", res.max_fork_width.to_string());
        if res.forks > 0 {
            out.count("scenarios_with_fork");
        }
        if sqlite_pct > 0 {
            out.count("scenarios_with_sqlite_members");
        }
        for (k, v) in &res.counters {
            out.add(k, *v);
        }
        for (k, v) in &res.sets {
            for x in v {
                out.note(k, x.clone());
            }
        }
        let nontrivial = match prop {
            "C01" | "C02" => res.rollbacks > 0,
            "C07" => res.counters.get("c07_redeliveries").copied().unwrap_or(0) > 0,
            "C06" => res.counters.get("c06_history_refusals_checked").copied().unwrap_or(0) > 0,
            _ => res.canonical_len > 0,
        };
        if nontrivial {
            out.distinct.insert(res.schedule_hash);
        }
        if i < 3 {
            out.sample(res.sample.clone(), 3);
        }
        if only.is_some() {
            eprintln!("--- regime {regime:?} trace of scenario {i}");
            for l in &res.trace {
                eprintln!("{l}");
            }
            for f in &res.findings {
                eprintln!("FINDING {} {} :: {}", f.prop, f.signature, f.detail);
            }
            if std::env::var("VERIF_LOG").is_ok() {
                eprintln!("LOG {}", serde_json::to_string(&res.log).unwrap_or_default());
            }
        }
        let mut seen = std::collections::BTreeSet::new();
        for f in &res.findings {
            if f.prop != prop {
                continue;
            }
            if !seen.insert(f.signature.clone()) {
                continue;
            }
            // in the clean regime none of the known predicates can hold by construction: whatever
            // the classifier says, a finding there never matches a known-findings line
            let sig = if regime == Regime::Clean { format!("{}|in-clean-regime", f.signature) } else { f.signature.clone() };
            out.violation(sig, format!("[regime {regime:?}, scenario {i}] {}", f.detail), json!({"kind": "history", "scenario": i, "seed": ctx.seed, "regime": format!("{regime:?}"), "log": res.log, "trace": res.trace, "sample": res.sample}));
        }
    });
    let _ = std::fs::remove_dir_all(&dir);
    (prop, out)
}

fn describe(prop: &str, out: &Outcome, ctx: &Ctx) -> (&'static str, Vec<Floor>, Vec<String>) {
    let common_assumptions = vec![
        "delivery orders are chosen by the harness (abstract schedule), wrapper created_at is pinned through hook H1; key material and therefore event-id tie-breaks are fresh on every run".to_string(),
        "observations go through the public API (plus load_mls_group from the repo's debug-examples feature)".to_string(),
    ];
    let replaying = ctx.replay.is_some();
    match prop {
        "C01" => (
            "generated group histories (3-5 members + silent oracle replica, forks of 1-3 concurrent commits with wrapper timestamps from {T,T+1}, application messages, duplicates, per-member independent delivery) in the clean regime (own commits applied on echo, causal delivery, proposals before the commits that reference them) and in dirty regimes (immediate merge, unrestricted order, leave proposals, roster changes); after the final re-offer fixpoint every remaining member is compared with the oracle replica that was fed only the MIP-03 winners; non-trivial = at least one rollback happened; distinct = distinct abstract schedules",
            if replaying { vec![] } else { vec![Floor { what: "scenarios containing a fork", have: out.get("scenarios_with_fork"), need: 40 }, Floor { what: "rollbacks observed", have: out.get("rollbacks_observed"), need: 20 }, Floor { what: "members compared with the oracle", have: out.get("c01_members_compared"), need: 200 }] },
            common_assumptions,
        ),
        "C02" => (
            "same histories as C01 with the message oracle: every application message created on the canonical chain must be stored exactly once, intact and Processed at every converged client that was in the sending state; messages of losing branches must not be left valid; non-trivial = at least one rollback; distinct = distinct schedules",
            if replaying { vec![] } else { vec![Floor { what: "due canonical messages checked", have: out.get("c02_due_messages_checked"), need: 500 }, Floor { what: "losing-branch messages checked", have: out.get("c02_losing_branch_messages_checked"), need: 20 }, Floor { what: "window trials: due messages checked", have: out.get("c02win_due_checked"), need: 500 }, Floor { what: "window trials: due messages checked at a joiner", have: out.get("c02win_due_checked_at_joiner"), need: 100 }, Floor { what: "window trials: forced forward jumps beyond what defaults/swapped parameters allow", have: out.get("c02win_forced_forward_jumps"), need: 100 }] },
            common_assumptions,
        ),
        "C07" => (
            "inside generated histories and after their fixpoint, events that have taken effect at a client (stored message, applied or superseded commit, queued proposal, own echoes) are re-delivered 1-3 times; the complete fingerprint of every group of that client must be unchanged; non-trivial = at least one re-delivery; distinct = distinct schedules",
            if replaying { vec![] } else { vec![Floor { what: "re-deliveries", have: out.get("c07_redeliveries"), need: 500 }, Floor { what: "distinct (kind, distance, context, result) cases", have: out.sets.get("c07_cases").map(|s| s.len()).unwrap_or(0) as u64, need: 12 }, Floor { what: "directed trials: refused commit, then applied commit of the same epoch, then re-delivery", have: out.get("c07dir_trials_in_shape"), need: 60 }] },
            common_assumptions,
        ),
        "C08" => (
            "after every single step of generated histories (local operations and processed events incl. rollbacks, own-commit echoes, immediate merges, welcomes, nostr-id rotations, relay changes) the acting client's stored record and relay set are compared field by field with its MLS state, and the id in force must resolve to the group while every id seen in force earlier on that client (rotated away, or rolled back together with the commit that introduced it) must not; non-trivial = history with at least one canonical commit",
            if replaying { vec![] } else { vec![Floor { what: "mirror checks", have: out.get("c08_mirror_checks"), need: 5000 }, Floor { what: "look-ups by a nostr id that was in force earlier (rotated away or rolled back)", have: out.get("c08_stale_id_probes"), need: 300 }] },
            common_assumptions,
        ),
        "C20" => (
            "after every step of generated histories with retention values 1,2,3,5 the acting client's stored snapshots are listed: count <= retention, one per epoch, all below the current epoch, each naming the commit applied at that epoch on the current branch, no gap above the oldest kept one; plus the time-to-live half: SQLite clients with 4 snapshots of real ages 0..3.3 s are re-opened (MDK::builder().build()) with snapshot_ttl_seconds in {0,1,2,3,10} and the surviving set must be exactly the snapshots with created_at >= now - ttl (cases that cross a second boundary are retried, not judged)",
            if replaying { vec![] } else { vec![Floor { what: "snapshot checks", have: out.get("c20_snapshot_checks"), need: 5000 }, Floor { what: "checks at full retention", have: out.get("c20_checks_at_full_retention"), need: 100 }, Floor { what: "ttl start-up cases", have: out.get("c20_ttl_cases"), need: 20 }] },
            common_assumptions,
        ),
        _ => ("", vec![], common_assumptions),
    }
}
