//! One entry per property.

use std::time::Duration;

use serde_json::json;

use crate::report::{Ctx, Floor, finish};
use crate::vstore::ops::GenCfg;

pub mod storage_seq;

use storage_seq::SeqCfg;

pub fn dispatch(ctx: &Ctx, rest: &[String]) -> i32 {
    let _ = rest;
    match ctx.prop.as_str() {
        "C09" => c09(ctx),
        "C10" => c10(ctx),
        "C18" => c18(ctx),
        "C01" | "C02" | "C07" | "C08" | "C20" => histcheck::run(ctx),
        "C03" => c03::run(ctx),
        "C04" => c04::run(ctx),
        "C05" => c05::run(ctx),
        "C06" => c06::run(ctx),
        "C11" => c11::run(ctx),
        "C12" => c12::run(ctx),
        "C12-child" => c12::child(ctx, rest),
        "C13" => c13::run(ctx),
        "C14" => c14::run(ctx),
        "C15" => c15::run(ctx),
        "C16" => c16::run(ctx),
        "C19" => c19::run(ctx),
        "probe-c07" => probe::c07_forced_rollback(ctx),
        "C19-stress" => c19::stress_child(ctx, rest),
        "C19-rounds" => c19::rounds_child(ctx, rest),
        "C19-opraces" => c19::opraces_debug(ctx, rest),
        "C17" => c17::run(ctx),
        "C06-child" => c06::child(ctx, rest),
        other => {
            eprintln!("unknown property {other}");
            2
        }
    }
}

fn load_replay(ctx: &Ctx) -> Option<serde_json::Value> {
    let p = ctx.replay.as_ref()?;
    let s = std::fs::read_to_string(p).ok()?;
    serde_json::from_str(&s).ok()
}

fn deadline(ctx: &Ctx, quick_s: u64, thorough_s: u64) -> Duration {
    Duration::from_secs(ctx.tier.pick(quick_s, thorough_s))
}

fn c10(ctx: &Ctx) -> i32 {
    let dir = ctx.scratch_dir("c10");
    let cfg = SeqCfg {
        n_ops: (30, 70),
        gcfg: GenCfg { snapshot_weight: 14, mls_weight: 18, message_weight: 40, over_limit: true, nid_collision: true },
        clean_pct: 50,
        dump_every: 10,
    };
    let out = if let Some(rp) = load_replay(ctx) {
        let mut o = crate::report::Outcome::default();
        let mut rng = crate::rng::Rng::new(ctx.seed);
        storage_seq::c10_scenario(&ctx.prop, 0, &mut rng, &mut o, &dir, &cfg, storage_seq::parse_replay(&rp));
        o
    } else {
        let n = ctx.budget(4000, 150_000) as u64;
        crate::par::run(ctx, n, deadline(ctx, 70, 1200), |i, rng, out| storage_seq::c10_scenario(&ctx.prop, i, rng, out, &dir, &cfg, None))
    };
    let _ = std::fs::remove_dir_all(&dir);
    let floors = if ctx.replay.is_some() {
        vec![]
    } else {
        vec![
            Floor { what: "sequences", have: out.evaluations, need: 500 },
            Floor { what: "distinct operation kinds exercised", have: out.sets.get("op_kinds").map(|s| s.len()).unwrap_or(0) as u64, need: 30 },
            Floor { what: "effective rollbacks", have: out.get("rollbacks_ok"), need: 100 },
            Floor { what: "pagination probes", have: out.get("page_probes"), need: 2000 },
        ]
    };
    finish(
        ctx,
        "exploration",
        "random operation sequences (30-70 ops, 3 groups, 5 message ids reused across groups, 3 timestamp values, 6 wrapper ids) applied to the reference model, MdkMemoryStorage and MdkSqliteStorage; after every operation the result class is compared, every 10 operations the complete read-out (every read method over the whole key universe) and random pagination triples; a sequence counts as non-trivial if it used >= 8 operation kinds or contained an effective rollback; distinct = distinct operation lists (hash)",
        out,
        floors,
        vec![
            "values stay inside the intersection of both backends' documented limits (name <= 255 B, description <= 2000 B) or far outside both; LRU capacity (1000) is never approached".into(),
            "error wording is not compared, only Ok / NotFound / other".into(),
            "snapshot created_at (wall clock) is not compared; snapshot listings are compared as sets".into(),
            "find_message_epoch_by_tag_content is judged against the set of admissible answers when several messages match".into(),
        ],
        json!({}),
    )
}

fn c09(ctx: &Ctx) -> i32 {
    let dir = ctx.scratch_dir("c09");
    let cfg = SeqCfg {
        n_ops: (30, 60),
        gcfg: GenCfg { snapshot_weight: 30, mls_weight: 25, message_weight: 25, over_limit: false, nid_collision: false },
        clean_pct: 50,
        dump_every: 1,
    };
    let out = if let Some(rp) = load_replay(ctx) {
        let mut o = crate::report::Outcome::default();
        let mut rng = crate::rng::Rng::new(ctx.seed);
        storage_seq::c09_scenario(&ctx.prop, 0, &mut rng, &mut o, &dir, &cfg, storage_seq::parse_replay(&rp), true);
        o
    } else {
        let n = ctx.budget(2500, 100_000) as u64;
        crate::par::run(ctx, n, deadline(ctx, 70, 1200), |i, rng, out| {
            // every 4th sequence also runs on SQLite in quick; every sequence in thorough
            let with_sqlite = ctx.tier == crate::report::Tier::Thorough || i % 3 == 0;
            storage_seq::c09_scenario(&ctx.prop, i, rng, out, &dir, &cfg, None, with_sqlite)
        })
    };
    let _ = std::fs::remove_dir_all(&dir);
    let floors = if ctx.replay.is_some() {
        vec![]
    } else {
        vec![
            Floor { what: "sequences", have: out.evaluations, need: 300 },
            Floor { what: "rollbacks checked", have: out.get("rollbacks_checked"), need: 300 },
            Floor { what: "sqlite sequences", have: out.get("sqlite_sequences"), need: 100 },
        ]
    };
    finish(
        ctx,
        "exploration",
        "random storage-operation sequences over 3 groups (all trait writes + OpenMLS StorageProvider writes/deletes) interleaved with snapshot create / rollback / release / list / prune under 3 names shared across groups; after EVERY operation the complete read-out of the backend is compared with the read-out before it (frame condition) and, on rollback, with the group-scoped read-out recorded when the snapshot was taken (restore condition); non-trivial = contained at least one effective rollback; distinct = distinct operation lists",
        out,
        floors,
        vec![
            "snapshots are only taken of groups whose record exists (the library never does otherwise)".into(),
            "nostr group ids of different groups come from disjoint pools".into(),
            "snapshot created_at is not compared".into(),
        ],
        json!({}),
    )
}

fn c18(ctx: &Ctx) -> i32 {
    let dir = ctx.scratch_dir("c18");
    let cfg = SeqCfg {
        n_ops: (25, 50),
        gcfg: GenCfg { snapshot_weight: 0, mls_weight: 0, message_weight: 80, over_limit: false, nid_collision: false },
        clean_pct: 100,
        dump_every: 12,
    };
    let out = if let Some(rp) = load_replay(ctx) {
        let mut o = crate::report::Outcome::default();
        let mut rng = crate::rng::Rng::new(ctx.seed);
        storage_seq::c18_storage_scenario(&ctx.prop, 0, &mut rng, &mut o, &dir, &cfg, storage_seq::parse_replay(&rp));
        o
    } else {
        let n = ctx.budget(1500, 60_000) as u64;
        crate::par::run(ctx, n, deadline(ctx, 60, 900), |i, rng, out| storage_seq::c18_storage_scenario(&ctx.prop, i, rng, out, &dir, &cfg, None))
    };
    let _ = std::fs::remove_dir_all(&dir);
    let mut out = out;
    if ctx.replay.is_none() {
        // history half: last-message pointer + ordering after every step of simulator histories
        let (_, hout) = histcheck::run_outcome(ctx);
        out.merge(hout);
    }
    let floors = if ctx.replay.is_some() {
        vec![]
    } else {
        vec![
            Floor { what: "listings with >= 2 messages", have: out.get("listings_with_2plus_messages"), need: 500 },
            Floor { what: "listings with a full timestamp tie", have: out.get("listings_with_full_timestamp_tie"), need: 100 },
            Floor { what: "pointer checks on histories", have: out.get("c18_pointer_checks"), need: 3000 },
            Floor { what: "pointer checks with invalidated messages present", have: out.get("c18_checks_with_invalidated_messages"), need: 20 },
        ]
    };
    finish(
        ctx,
        "exploration",
        "two halves. (1) storage: random message sets (5 ids reused across 3 groups, created_at/processed_at drawn from 3 values so that ties in either or both occur, arbitrary insertion order, overwrites, state flips) on both backends; every listing is compared with the documented total order computed independently, pages of limit 1/2/3 are concatenated and compared with the full list, limits 0 / 10001 / usize::MAX must be refused, last_message must equal the head. (2) histories: after every step of simulator histories (own and others' messages, late, re-delivered, invalidated by rollback) the acting client's listing must be in the documented order and group.last_message_id must designate the first non-invalidated message of the default order (or nothing); distinct = distinct operation lists with >= 3 message writes / distinct schedules with a canonical commit",
        out,
        floors,
        vec!["processed_at comes from the wall clock (1 s granularity) in the history half, so processed_at ties arise naturally and are not forced".into()],
        json!({}),
    )
}

pub mod c02win;
pub mod c07dir;
pub mod probe;
pub mod c03;
pub mod c04;
pub mod c05;
pub mod c06;
pub mod c11;
pub mod c12;
pub mod c13;
pub mod c14;
pub mod c15;
pub mod c16;
pub mod c17;
pub mod c19;
pub mod hist;
pub mod histcheck;
