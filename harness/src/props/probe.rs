//! Hand-directed probes (debugging aids, not registered checks): `vcheck probe-<name>`.

use crate::report::Ctx;
use crate::rng::Rng;
use crate::sim::scenario::*;
use crate::sim::*;

/// Three commits of one epoch with equal timestamps: e6 (admin rename), e5 (non-admin self_update that
/// sweeps a queued leave: refused by validation), e4 (admin add). The subject applies e6, is rolled
/// back by e5 (refused), applies e4, and is then offered everything again.
pub fn c07_forced_rollback(ctx: &Ctx) -> i32 {
    let dir = ctx.scratch_dir("probe");
    let mut hits = 0;
    for round in 0..400u64 {
        let mut rng = Rng::for_scenario(ctx.seed, "probe-c07", round);
        let mut w = World::empty(dir.clone(), format!("p{round}"));
        let mut cfg = mdk_core::MdkConfig::default();
        cfg.epoch_snapshot_retention = *rng.pick(&[5usize, 3, 2, 1]);
        let m0 = w.add_client(BackendKind::Memory, cfg.clone(), &mut rng);
        let m2 = w.add_client(BackendKind::Memory, cfg.clone(), &mut rng);
        let m3 = w.add_client(BackendKind::Memory, cfg.clone(), &mut rng);
        let m4 = w.add_client(BackendKind::Memory, cfg.clone(), &mut rng);
        let g = w.create_group(&[m0, m2, m3, m4], &[m0, m2], None, "probe");
        let gid = w.gid(g);
        w.t += 5;
        let t = w.t;
        let Some(e3) = w.act_leave(m3, g) else { continue };
        w.deliver(m4, e3, OwnMode::Echo);
        let Some(e4) = w.act_commit(m2, g, &CommitKind::Add, t, OwnMode::Echo, 0, &mut rng) else { continue };
        let Some(e5) = w.act_commit(m4, g, &CommitKind::SelfUpdate, t, OwnMode::Echo, 0, &mut rng) else { continue };
        let Some(e6) = w.act_commit(m0, g, &CommitKind::Rename, t, OwnMode::Echo, 7, &mut rng) else { continue };
        let ids: std::collections::HashMap<usize, String> = [e4, e5, e6].into_iter().map(|i| (i, w.log[i].ev.id.to_hex())).collect();
        let id = |i: usize| ids[&i].clone();
        if !(id(e4) < id(e5) && id(e5) < id(e6)) {
            w.cleanup();
            continue;
        }
        let ts = w.base_ts + 1;
        let a1 = w.act_message(m2, g, ts);
        let a2 = w.act_message(m0, g, ts + 1);
        let mut lines = vec![];
        let mut seq = vec![e6, e5, e4, e6];
        seq.extend(a1);
        seq.push(e5);
        seq.extend(a2);
        seq.extend([e4, e4]);
        for idx in seq {
            let before = w.clients[m3].fp(&gid);
            let d = w.deliver(m3, idx, OwnMode::Echo);
            let after = w.clients[m3].fp(&gid);
            lines.push(format!("e{idx} -> {} rollbacks={} changed={:?}", d.class, d.rollbacks.len(), before.diff(&after)));
        }
        let bad = lines[lines.len() - 1].contains("rollbacks=1") || lines[lines.len() - 2].contains("rollbacks=1");
        if bad {
            hits += 1;
        }
        if bad || round < 30 {
            println!("round {round} ids e4={} e5={} e6={}{}", &id(e4)[..6], &id(e5)[..6], &id(e6)[..6], if bad { "  <-- re-delivery rolled back" } else { "" });
            for l in &lines {
                println!("    {l}");
            }
        }
        w.cleanup();
    }
    println!("hits {hits}");
    let _ = std::fs::remove_dir_all(&dir);
    0
}
