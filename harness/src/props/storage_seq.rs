//! Storage-level sequence checks: C10 (differential vs model), C09 (rollback frame/restore
//! conditions per backend), C18 storage half (ordering + pagination).

use std::collections::{BTreeMap, BTreeSet};
use std::path::Path;

use mdk_memory_storage::MdkMemoryStorage;
use mdk_sqlite_storage::MdkSqliteStorage;
use mdk_storage_traits::MdkStorageProvider;
use mdk_storage_traits::groups::MessageSortOrder;
use serde_json::json;

use crate::report::Outcome;
use crate::rng::{Rng, fnv};
use crate::vstore::model::{Model, diff};
use crate::vstore::ops::*;
use crate::vstore::universe::*;

/// Databases live in many sub-directories: journal create/unlink on every autocommit write
/// otherwise serialises all worker threads on one tmpfs directory lock.
fn shard_dir(dir: &Path, name: &str) -> std::path::PathBuf {
    let d = dir.join(format!("d{:02x}", crate::rng::fnv(name.as_bytes()) % 251));
    let _ = std::fs::create_dir_all(&d);
    d
}

pub fn open_sqlite(dir: &Path, name: &str) -> MdkSqliteStorage {
    // two thirds of the storage-level sequences use SQLite's ":memory:" path (same SQL, no file
    // system calls, ~4x faster); one third uses a real file with rollback journal
    if name.starts_with("mem:") {
        return MdkSqliteStorage::new_unencrypted(":memory:").expect("open sqlite :memory:");
    }
    let p = shard_dir(dir, name).join(name);
    let _ = std::fs::remove_file(&p);
    MdkSqliteStorage::new_unencrypted(&p).expect("open sqlite")
}

pub fn rm_sqlite(dir: &Path, name: &str) {
    if name.starts_with("mem:") {
        return;
    }
    let d = shard_dir(dir, name);
    for suf in ["", "-journal", "-wal", "-shm"] {
        let _ = std::fs::remove_file(d.join(format!("{name}{suf}")));
    }
}

fn gen_ops(rng: &mut Rng, cfg: GenCfg, n: usize, clean_snapshot_names: bool) -> (Universe, Vec<Op>) {
    let u = Universe::new(rng.next());
    let mut model = Model::default();
    let mut ops = Vec::with_capacity(n);
    let mut g = Gen::new(rng, cfg);
    // make sure group 0 exists early so that most operations are meaningful
    let first = Op::SaveGroup(GroupSpec { nid_of: None, name: 0, desc: 0, ..g.group_spec(0) });
    model.apply(&u, &first);
    ops.push(first);
    // sometimes push the SQLite autoincrement row ids of own-leaf-node / relay rows past one
    // decimal digit (row keys of snapshots are JSON-encoded ids)
    if g.rng.chance(15) {
        for _ in 0..g.rng.range(8, 14) {
            let op = Op::LeafAppend { g: g.rng.below(N_GROUPS), v: 900_000 + g.rng.below(1000) as u32 };
            model.apply(&u, &op);
            ops.push(op);
        }
    }
    let target = n.max(ops.len() + 20);
    while ops.len() < target {
        // directed macro (only where re-taking is allowed): a snapshot, then rows of the group are
        // deleted or re-keyed, then the snapshot is RE-TAKEN under the same live name and - a few
        // operations later - rolled back to: the second take must replace the first, not merge with it
        if !clean_snapshot_names && g.rng.chance(3) {
            let gi = g.rng.below(N_GROUPS);
            if model.group_exists(gi) {
                let name = g.rng.below(3);
                let mut seq = vec![Op::SnapCreate { g: gi, name }];
                for _ in 0..g.rng.range(1, 3) {
                    seq.push(match g.rng.below(5) {
                        0 => Op::ReplaceRelays { g: gi, mask: g.rng.below(16) as u8 },
                        1 => Op::PropClear { g: gi },
                        2 => Op::LeafDelete { g: gi },
                        3 => Op::EpkDelete { g: gi, e: g.rng.below(3) as u8, leaf: g.rng.below(2) as u32 },
                        _ => Op::GdDelete { g: gi, ty: g.rng.below(N_GD_TYPES as usize) as u8 },
                    });
                }
                seq.push(Op::SnapCreate { g: gi, name });
                for _ in 0..g.rng.below(3) {
                    seq.push(g.next());
                }
                seq.push(Op::SnapRollback { g: gi, name });
                for op in seq {
                    // the interleaved random operations obey the same preconditions as below
                    if let Op::SnapCreate { g: x, .. } = &op
                        && !model.group_exists(*x)
                    {
                        continue;
                    }
                    if let Op::SaveGroup(spec) = &op
                        && spec.nid_of.is_some()
                    {
                        continue;
                    }
                    model.apply(&u, &op);
                    ops.push(op);
                }
                continue;
            }
        }
        let mut op = g.next();
        if let Op::SnapCreate { g: gi, name } = &op {
            if !model.group_exists(*gi) {
                // snapshots are only ever taken of existing groups (precondition of the contract)
                op = Op::SaveGroup(GroupSpec { nid_of: None, name: 0, desc: 0, ..g.group_spec(*gi) });
            } else if clean_snapshot_names && model.snapshots.contains_key(&(*gi, *name)) {
                // clean regime: never re-take a snapshot under a live name
                op = Op::SnapRelease { g: *gi, name: *name };
            }
        }
        if let Op::SaveGroup(spec) = &mut op
            && let Some(o) = spec.nid_of
        {
            // cross-group collision probe: only claim an id that the other group holds right now
            // (both backends must refuse). Re-using an id that another group held earlier is
            // outside the contract explored here (see DESIGN.md, C10 assumptions).
            if o == spec.g || model.groups.get(&o).and_then(|x| x.record.as_ref()).map(|r| r.nostr_group_id) != Some(u.nids[o][spec.nid]) {
                spec.nid_of = None;
            }
        }
        model.apply(&u, &op);
        ops.push(op);
    }
    (u, ops)
}

fn ops_hash(ops: &[Op]) -> u64 {
    fnv(serde_json::to_string(ops).unwrap().as_bytes())
}

fn res_class(r: &Res) -> String {
    match r {
        Res::Ok(p) => format!("Ok({p})"),
        Res::NotFound => "NotFound".into(),
        Res::Err => "Err".into(),
    }
}

/// key -> short class used in signatures (strip indices)
fn key_class(k: &str) -> String {
    let parts: Vec<&str> = k.split('/').collect();
    let head: String = parts[0].chars().filter(|c| c.is_ascii_alphabetic()).collect();
    let mut rest: Vec<String> = parts[1..].iter().filter(|p| p.parse::<u64>().is_err()).map(|s| s.to_string()).collect();
    if rest.len() > 2 {
        rest.truncate(2);
    }
    format!("{head}/{}", rest.join("/"))
}

// ------------------------------------------------------------------------------------------------
// C10
// ------------------------------------------------------------------------------------------------

pub struct SeqCfg {
    pub n_ops: (usize, usize),
    pub gcfg: GenCfg,
    pub clean_pct: u32,
    pub dump_every: usize,
}

pub fn c10_scenario(prop: &str, i: u64, rng: &mut Rng, out: &mut Outcome, dir: &Path, cfg: &SeqCfg, replay_ops: Option<(Universe, Vec<Op>)>) {
    let clean = rng.chance(cfg.clean_pct);
    let n = rng.range(cfg.n_ops.0, cfg.n_ops.1);
    let (u, ops) = match replay_ops {
        Some(x) => x,
        None => gen_ops(rng, cfg.gcfg, n, clean),
    };
    out.evaluations += 1;
    let mem = MdkMemoryStorage::default();
    let dbname = if i % 3 != 0 { format!("mem:c10-{i}") } else { format!("c10-{i}.db") };
    let sql = open_sqlite(dir, &dbname);
    let mut model = Model::default();
    let mut nontrivial = false;
    let mut kinds: BTreeSet<&'static str> = BTreeSet::new();
    let replay = |upto: usize| json!({"kind": "storage-seq", "universe": u, "ops": ops[..=upto.min(ops.len() - 1)], "scenario": i});
    'outer: for (k, op) in ops.iter().enumerate() {
        kinds.insert(op.kind());
        out.note("op_kinds", op.kind());
        let rm = model.apply(&u, op);
        let r1 = apply(&mem, &u, op);
        let r2 = apply(&sql, &u, op);
        out.count("ops");
        if matches!(op, Op::SnapRollback { .. }) && matches!(rm, Res::Ok(_)) {
            out.count("rollbacks_ok");
            nontrivial = true;
        }
        if !matches!(rm, Res::Ok(_)) {
            out.count("ops_refused_by_model");
        }
        for (bn, r) in [("memory", &r1), ("sqlite", &r2)] {
            // error class only: Ok payload / NotFound / Err
            if *r != rm {
                let pred = predicates_result(op, &model, bn);
                out.violation(
                    format!("{prop}|result-class|op={}|{}={}|model={}|{}", op.kind(), bn, short_class(r), short_class(&rm), pred),
                    format!("scenario {i} op#{k} {:?}: {bn} returned {} but the contract model says {}", op, res_class(r), res_class(&rm)),
                    replay(k),
                );
                break 'outer;
            }
        }
        if (k + 1) % cfg.dump_every == 0 || k + 1 == ops.len() {
            let dm = model.dump(&u);
            let d1 = dump(&mem, &u);
            let d2 = dump(&sql, &u);
            out.count("dumps_compared");
            out.add("observables_compared", dm.len() as u64 * 2);
            for (bn, d) in [("memory", &d1), ("sqlite", &d2)] {
                let df = diff(&dm, d, |_| true);
                if !df.is_empty() {
                    let classes: BTreeSet<String> = df.iter().map(|x| key_class(&x.0)).collect();
                    let pred = predicates_state(&ops[..=k], bn);
                    out.violation(
                        format!("{prop}|state|{bn}|keys={}|{}", classes.iter().cloned().collect::<Vec<_>>().join("+"), pred),
                        format!("scenario {i} after op#{k} {:?}: {bn} differs from the model at {} observable(s); first: {} expected `{}` got `{}`", op, df.len(), df[0].0, crate::util::short(&df[0].1, 160), crate::util::short(&df[0].2, 160)),
                        replay(k),
                    );
                    break 'outer;
                }
            }
            // pagination probes (random triples each time, every triple over a run)
            for _ in 0..6 {
                let g = rng.below(N_GROUPS);
                let limit = if rng.chance(15) { None } else { Some(*rng.pick(&PAGE_LIMITS)) };
                let offset = if rng.chance(15) { None } else { Some(*rng.pick(&PAGE_OFFSETS)) };
                let pf = rng.chance(50);
                let sort = if rng.chance(20) { None } else if pf { Some(MessageSortOrder::ProcessedAtFirst) } else { Some(MessageSortOrder::CreatedAtFirst) };
                let pf_eff = matches!(sort, Some(MessageSortOrder::ProcessedAtFirst));
                let exp = model.page(g, limit, offset, pf_eff).unwrap_or("ERR".into());
                out.count("page_probes");
                for (bn, got) in [("memory", page_probe(&mem, &u, g, limit, offset, sort)), ("sqlite", page_probe(&sql, &u, g, limit, offset, sort))] {
                    if got != exp {
                        out.violation(
                            format!("{prop}|page|{bn}|limit={}|offset={}", lim_class(limit), lim_class(offset)),
                            format!("scenario {i} after op#{k}: messages(g{g}, limit={limit:?}, offset={offset:?}, sort={sort:?}) on {bn} = `{got}`, model = `{exp}`"),
                            replay(k),
                        );
                        break 'outer;
                    }
                }
                let wl = if rng.chance(30) { None } else { Some(*rng.pick(&PAGE_LIMITS)) };
                let wo = if rng.chance(30) { None } else { Some(*rng.pick(&[0usize, 1, 2, 100])) };
                let wexp = model.welcome_page(wl, wo).unwrap_or("ERR".into());
                for (bn, got) in [("memory", welcome_page_probe(&mem, wl, wo)), ("sqlite", welcome_page_probe(&sql, wl, wo))] {
                    if got != wexp {
                        out.violation(
                            format!("{prop}|welcome-page|{bn}|limit={}|offset={}", lim_class(wl), lim_class(wo)),
                            format!("scenario {i} after op#{k}: pending_welcomes(limit={wl:?}, offset={wo:?}) on {bn} = `{got}`, model = `{wexp}`"),
                            replay(k),
                        );
                        break 'outer;
                    }
                }
            }
        }
    }
    if kinds.len() >= 8 || nontrivial {
        out.distinct.insert(ops_hash(&ops));
    }
    if i < 2 {
        out.sample(json!({"scenario": i, "clean_regime": clean, "ops": ops.iter().take(25).collect::<Vec<_>>(), "n_ops": ops.len()}), 3);
    }
    drop(sql);
    rm_sqlite(dir, &dbname);
}

fn lim_class(l: Option<usize>) -> String {
    match l {
        None => "default".into(),
        Some(0) => "0".into(),
        Some(x) if x > 10_000 => ">max".into(),
        Some(10_000) => "max".into(),
        Some(_) => "small".into(),
    }
}
fn short_class(r: &Res) -> &'static str {
    match r {
        Res::Ok(_) => "Ok",
        Res::NotFound => "NotFound",
        Res::Err => "Err",
    }
}

/// History-derived predicate for a result-class mismatch.
fn predicates_result(op: &Op, model_after: &Model, _backend: &str) -> String {
    let _ = model_after;
    match op {
        Op::SnapCreate { .. } => "snapshot-create".into(),
        _ => "unexplained".into(),
    }
}

/// History-derived predicate for a state mismatch: was there an effective rollback on a group that
/// had stored messages (the SQLite restore path deletes and re-inserts the group row)?
fn predicates_state(ops_so_far: &[Op], _backend: &str) -> String {
    let mut had_rollback = false;
    for op in ops_so_far {
        if matches!(op, Op::SnapRollback { .. }) {
            had_rollback = true;
        }
    }
    if had_rollback { "after-rollback".into() } else { "no-rollback".into() }
}

// ------------------------------------------------------------------------------------------------
// C09 - per backend, oracle = the backend's own dumps
// ------------------------------------------------------------------------------------------------

fn scoped(k: &str, g: usize) -> bool {
    k.starts_with(&format!("G{g}/")) || k.starts_with(&format!("N{g}/"))
}
fn is_snaplist(k: &str) -> bool {
    k.starts_with('S')
}

pub fn c09_backend<S: MdkStorageProvider>(prop: &str, bn: &str, i: u64, s: &S, u: &Universe, ops: &[Op], out: &mut Outcome) -> bool {
    // shadow bookkeeping of which snapshots must exist, with the group-scoped dump at creation
    let mut shadow: BTreeMap<(usize, usize), Dump> = BTreeMap::new();
    let mut before = dump(s, u);
    let mut any_rollback = false;
    let replay = |upto: usize| json!({"kind": "storage-seq", "backend": bn, "universe": u, "ops": ops[..=upto], "scenario": i});
    for (k, op) in ops.iter().enumerate() {
        let r = apply(s, u, op);
        let after = dump(s, u);
        out.count("ops");
        match op {
            Op::SnapCreate { g, name } => {
                let existed = shadow.contains_key(&(*g, *name));
                match r {
                    Res::Ok(_) => {
                        let snap: Dump = after.iter().filter(|(k, _)| scoped(k, *g)).map(|(k, v)| (k.clone(), v.clone())).collect();
                        shadow.insert((*g, *name), snap);
                        out.count("snapshots_taken");
                        if existed {
                            out.count("snapshots_retaken_under_live_name");
                        }
                    }
                    _ => {
                        out.violation(
                            format!("{prop}|create-refused|{bn}|{}", if existed { "name-exists" } else { "fresh-name" }),
                            format!("scenario {i} op#{k}: create_group_snapshot(g{g}, {}) failed on {bn} ({})", SNAP_NAMES[*name], if existed { "a snapshot with this name exists: re-taking must replace it" } else { "fresh name" }),
                            replay(k),
                        );
                        return false;
                    }
                }
                // taking a snapshot changes no live state
                let df = diff(&before, &after, |k| !is_snaplist(k));
                if !df.is_empty() {
                    out.violation(format!("{prop}|create-changed-live-state|{bn}|{}", key_class(&df[0].0)), format!("scenario {i} op#{k}: create_group_snapshot changed {}: `{}` -> `{}`", df[0].0, df[0].1, df[0].2), replay(k));
                    return false;
                }
            }
            Op::SnapRollback { g, name } => {
                let snap = shadow.remove(&(*g, *name));
                match (&r, snap) {
                    (Res::Ok(_), Some(snap)) => {
                        any_rollback = true;
                        out.count("rollbacks_checked");
                        // restore condition
                        let df = diff(&snap, &after, |_| true);
                        if !df.is_empty() {
                            let classes: BTreeSet<String> = df.iter().map(|x| key_class(&x.0)).collect();
                            out.violation(
                                format!("{prop}|restore-inexact|{bn}|{}", classes.iter().cloned().collect::<Vec<_>>().join("+")),
                                format!("scenario {i} op#{k}: after rollback of g{g} to {} on {bn}, {} differs from snapshot time: expected `{}` got `{}`", SNAP_NAMES[*name], df[0].0, crate::util::short(&df[0].1, 140), crate::util::short(&df[0].2, 140)),
                                replay(k),
                            );
                            return false;
                        }
                        // frame condition: everything else unchanged, except that exactly this snapshot is consumed
                        let df = diff(&before, &after, |k| !scoped(k, *g) && !is_snaplist(k));
                        if !df.is_empty() {
                            let classes: BTreeSet<String> = df.iter().map(|x| key_class(&x.0)).collect();
                            let other_group = df.iter().any(|x| !x.0.contains(&format!("{g}/")) && !x.0.starts_with("X/"));
                            out.violation(
                                format!("{prop}|rollback-destroyed|{bn}|{}|{}", classes.iter().cloned().collect::<Vec<_>>().join("+"), if other_group { "other-group" } else { "same-group-or-global" }),
                                format!("scenario {i} op#{k}: rollback of g{g} on {bn} changed {} observable(s) outside the group's snapshot scope; first {}: `{}` -> `{}`", df.len(), df[0].0, crate::util::short(&df[0].1, 140), crate::util::short(&df[0].2, 140)),
                                replay(k),
                            );
                            return false;
                        }
                        for gg in 0..N_GROUPS {
                            let exp: Vec<&str> = shadow.keys().filter(|(x, _)| *x == gg).map(|(_, n)| SNAP_NAMES[*n]).collect();
                            let got = after.get(&format!("S{gg}/snapshots")).cloned().unwrap_or_default();
                            if exp.join(",") != got {
                                out.violation(
                                    format!("{prop}|snapshot-set-after-rollback|{bn}|{}", if gg == *g { "same-group" } else { "other-group" }),
                                    format!("scenario {i} op#{k}: after rollback of g{g} to {}, snapshots of g{gg} on {bn} are `{got}`, expected `{}`", SNAP_NAMES[*name], exp.join(",")),
                                    replay(k),
                                );
                                return false;
                            }
                        }
                    }
                    (Res::Ok(_), None) => {
                        out.violation(format!("{prop}|rollback-of-missing-snapshot-succeeded|{bn}"), format!("scenario {i} op#{k}: rollback to a snapshot that does not exist returned Ok on {bn}"), replay(k));
                        return false;
                    }
                    (_, Some(_)) => {
                        out.violation(format!("{prop}|rollback-refused|{bn}"), format!("scenario {i} op#{k}: rollback of g{g} to existing snapshot {} failed on {bn}", SNAP_NAMES[*name]), replay(k));
                        return false;
                    }
                    (_, None) => {
                        out.count("rollbacks_of_missing_snapshot");
                        let df = diff(&before, &after, |_| true);
                        if !df.is_empty() {
                            out.violation(format!("{prop}|failed-rollback-changed-state|{bn}|{}", key_class(&df[0].0)), format!("scenario {i} op#{k}: refused rollback changed {}", df[0].0), replay(k));
                            return false;
                        }
                    }
                }
            }
            Op::SnapRelease { g, name } => {
                shadow.remove(&(*g, *name));
                let df = diff(&before, &after, |k| !is_snaplist(k));
                if !df.is_empty() {
                    out.violation(format!("{prop}|release-changed-live-state|{bn}|{}", key_class(&df[0].0)), format!("scenario {i} op#{k}: release changed {}", df[0].0), replay(k));
                    return false;
                }
            }
            Op::Prune { all } => {
                if *all {
                    shadow.clear();
                }
                let df = diff(&before, &after, |k| !is_snaplist(k));
                if !df.is_empty() {
                    out.violation(format!("{prop}|prune-changed-live-state|{bn}|{}", key_class(&df[0].0)), format!("scenario {i} op#{k}: prune changed {}", df[0].0), replay(k));
                    return false;
                }
            }
            Op::SnapList { .. } => {
                let df = diff(&before, &after, |_| true);
                if !df.is_empty() {
                    out.violation(format!("{prop}|list-changed-state|{bn}|{}", key_class(&df[0].0)), format!("scenario {i} op#{k}: list changed {}", df[0].0), replay(k));
                    return false;
                }
            }
            _ => {}
        }
        // the listing must always equal the shadow set (no snapshot lost or resurrected by any op)
        if op.is_snapshot_op() {
            for gg in 0..N_GROUPS {
                let exp: Vec<&str> = shadow.keys().filter(|(x, _)| *x == gg).map(|(_, n)| SNAP_NAMES[*n]).collect();
                let got = after.get(&format!("S{gg}/snapshots")).cloned().unwrap_or_default();
                if exp.join(",") != got {
                    out.violation(format!("{prop}|snapshot-set|{bn}|after={}", op.kind()), format!("scenario {i} op#{k} {:?}: snapshots of g{gg} on {bn} are `{got}`, expected `{}`", op, exp.join(",")), replay(k));
                    return false;
                }
            }
        }
        before = after;
    }
    any_rollback
}

pub fn c09_scenario(prop: &str, i: u64, rng: &mut Rng, out: &mut Outcome, dir: &Path, cfg: &SeqCfg, replay_ops: Option<(Universe, Vec<Op>)>, with_sqlite: bool) {
    let clean = rng.chance(cfg.clean_pct);
    let n = rng.range(cfg.n_ops.0, cfg.n_ops.1);
    let (u, ops) = match replay_ops {
        Some(x) => x,
        None => gen_ops(rng, cfg.gcfg, n, clean),
    };
    out.evaluations += 1;
    let mem = MdkMemoryStorage::default();
    let mut nontrivial = c09_backend(prop, "memory", i, &mem, &u, &ops, out);
    if with_sqlite {
        let dbname = if i % 2 != 0 { format!("mem:c09-{i}") } else { format!("c09-{i}.db") };
        let sql = open_sqlite(dir, &dbname);
        nontrivial |= c09_backend(prop, "sqlite", i, &sql, &u, &ops, out);
        out.count("sqlite_sequences");
        drop(sql);
        rm_sqlite(dir, &dbname);
    }
    if nontrivial {
        out.distinct.insert(ops_hash(&ops));
    }
    if i < 2 {
        out.sample(json!({"scenario": i, "clean_regime": clean, "ops": ops.iter().take(25).collect::<Vec<_>>(), "n_ops": ops.len()}), 3);
    }
}

// ------------------------------------------------------------------------------------------------
// C18 (storage half): total order + pagination partition + limit validation + determinism
// ------------------------------------------------------------------------------------------------

pub fn c18_backend<S: MdkStorageProvider>(prop: &str, bn: &str, i: u64, s: &S, u: &Universe, model: &Model, ops: &[Op], out: &mut Outcome) {
    let replay = || json!({"kind": "storage-seq", "backend": bn, "universe": u, "ops": ops, "scenario": i});
    for g in 0..N_GROUPS {
        if !model.group_exists(g) {
            continue;
        }
        for (pf, sort) in [(false, MessageSortOrder::CreatedAtFirst), (true, MessageSortOrder::ProcessedAtFirst)] {
            let full_exp = model.page(g, Some(10_000), Some(0), pf).unwrap();
            let full = page_probe(s, u, g, Some(10_000), Some(0), Some(sort));
            let full2 = page_probe(s, u, g, Some(10_000), Some(0), Some(sort));
            out.count("listings_checked");
            if full != full2 {
                out.violation(format!("{prop}|nondeterministic-listing|{bn}"), format!("scenario {i}: two calls differ: `{full}` vs `{full2}`"), replay());
                return;
            }
            if full != full_exp {
                out.violation(format!("{prop}|order|{bn}|sort={}", if pf { "processed" } else { "created" }), format!("scenario {i}: g{g} listing `{full}` != documented order `{full_exp}`"), replay());
                return;
            }
            let n_items = if full.is_empty() { 0 } else { full.split(',').count() };
            if n_items >= 2 {
                out.count("listings_with_2plus_messages");
            }
            // ties present?
            let msgs = model.sorted_messages(g, pf);
            if msgs.windows(2).any(|w| w[0].created_at == w[1].created_at && w[0].processed_at == w[1].processed_at) {
                out.count("listings_with_full_timestamp_tie");
            }
            // pages partition the list for every limit
            for limit in [1usize, 2, 3] {
                let mut acc: Vec<String> = vec![];
                let mut off = 0;
                loop {
                    let p = page_probe(s, u, g, Some(limit), Some(off), Some(sort));
                    out.count("pages_fetched");
                    if p == "ERR" {
                        out.violation(format!("{prop}|page-refused|{bn}"), format!("scenario {i}: page limit={limit} offset={off} refused"), replay());
                        return;
                    }
                    if p.is_empty() {
                        break;
                    }
                    let items: Vec<String> = p.split(',').map(|x| x.to_string()).collect();
                    if items.len() > limit {
                        out.violation(format!("{prop}|page-too-long|{bn}"), format!("scenario {i}: page limit={limit} returned {} items", items.len()), replay());
                        return;
                    }
                    acc.extend(items);
                    off += limit;
                    if off > 50 {
                        break;
                    }
                }
                if acc.join(",") != full {
                    out.violation(format!("{prop}|pages-do-not-partition|{bn}|limit={limit}"), format!("scenario {i}: g{g} concatenated pages `{}` != full list `{full}`", acc.join(",")), replay());
                    return;
                }
            }
            for bad in [0usize, 10_001, usize::MAX] {
                let p = page_probe(s, u, g, Some(bad), Some(0), Some(sort));
                out.count("out_of_range_limits_probed");
                if p != "ERR" {
                    out.violation(format!("{prop}|bad-limit-accepted|{bn}|limit={}", lim_class(Some(bad))), format!("scenario {i}: limit {bad} accepted: `{p}`"), replay());
                    return;
                }
            }
            // last_message agrees with the head of the list
            let head = full.split(',').next().unwrap_or("").to_string();
            let last = match s.last_message(&u.gid(g), sort) {
                Ok(Some(m)) => m.id.to_hex()[..8].to_string(),
                Ok(None) => String::new(),
                Err(_) => "ERR".into(),
            };
            if last != head {
                out.violation(format!("{prop}|last-message-not-head|{bn}"), format!("scenario {i}: last_message `{last}` != head of list `{head}`"), replay());
                return;
            }
        }
    }
}

pub fn c18_storage_scenario(prop: &str, i: u64, rng: &mut Rng, out: &mut Outcome, dir: &Path, cfg: &SeqCfg, replay_ops: Option<(Universe, Vec<Op>)>) {
    let n = rng.range(cfg.n_ops.0, cfg.n_ops.1);
    let (u, ops) = match replay_ops {
        Some(x) => x,
        None => gen_ops(rng, cfg.gcfg, n, true),
    };
    out.evaluations += 1;
    let mem = MdkMemoryStorage::default();
    let dbname = if i % 3 != 0 { format!("mem:c18-{i}") } else { format!("c18-{i}.db") };
    let sql = open_sqlite(dir, &dbname);
    let mut model = Model::default();
    let mut msgs = 0;
    for (k, op) in ops.iter().enumerate() {
        // rollbacks are C09's business; here they would only mix in its known signatures
        if matches!(op, Op::SnapRollback { .. }) {
            continue;
        }
        model.apply(&u, op);
        apply(&mem, &u, op);
        apply(&sql, &u, op);
        if matches!(op, Op::SaveMessage(_)) {
            msgs += 1;
        }
        if (k + 1) % cfg.dump_every == 0 || k + 1 == ops.len() {
            let nv = out.violations.len();
            c18_backend(prop, "memory", i, &mem, &u, &model, &ops[..=k], out);
            c18_backend(prop, "sqlite", i, &sql, &u, &model, &ops[..=k], out);
            if out.violations.len() > nv {
                break;
            }
        }
    }
    if msgs >= 3 {
        out.distinct.insert(ops_hash(&ops));
    }
    if i < 2 {
        out.sample(json!({"scenario": i, "ops": ops.iter().filter(|o| matches!(o, Op::SaveMessage(_))).take(12).collect::<Vec<_>>(), "n_ops": ops.len()}), 3);
    }
    drop(sql);
    rm_sqlite(dir, &dbname);
}

pub fn parse_replay(v: &serde_json::Value) -> Option<(Universe, Vec<Op>)> {
    let r = v.get("replay")?;
    let u: Universe = serde_json::from_value(r.get("universe")?.clone()).ok()?;
    let ops: Vec<Op> = serde_json::from_value(r.get("ops")?.clone()).ok()?;
    Some((u, ops))
}
