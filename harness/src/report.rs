//! Verdict discipline, known findings, evidence files, replay files.

use std::collections::{BTreeMap, BTreeSet};
use std::path::PathBuf;
use std::time::Instant;

use serde_json::{Value, json};

#[derive(Clone, Copy, PartialEq, Eq, Debug)]
pub enum Tier {
    Quick,
    Thorough,
}
impl Tier {
    pub fn as_str(&self) -> &'static str {
        match self {
            Tier::Quick => "quick",
            Tier::Thorough => "thorough",
        }
    }
    pub fn pick<T>(&self, q: T, t: T) -> T {
        match self {
            Tier::Quick => q,
            Tier::Thorough => t,
        }
    }
}

#[derive(Clone, Debug)]
pub struct Ctx {
    pub prop: String,
    pub tier: Tier,
    pub seed: u64,
    pub threads: usize,
    pub verif_dir: PathBuf,
    pub replay: Option<PathBuf>,
    pub started: Instant,
    /// scale factor for budgets (env VERIF_SCALE, default 1.0) - used by self-validation runs
    pub scale: f64,
}

impl Ctx {
    pub fn budget(&self, quick: usize, thorough: usize) -> usize {
        let b = self.tier.pick(quick, thorough) as f64 * self.scale;
        (b.ceil() as usize).max(1)
    }
    pub fn scratch_dir(&self, tag: &str) -> PathBuf {
        let base = std::env::var("VERIF_SCRATCH").unwrap_or_else(|_| {
            if std::path::Path::new("/dev/shm").is_dir() { "/dev/shm".into() } else { std::env::temp_dir().to_string_lossy().into_owned() }
        });
        let p = PathBuf::from(base).join(format!("mdk-verif-{}-{}", std::process::id(), tag));
        std::fs::create_dir_all(&p).expect("scratch dir");
        p
    }
}

/// A violation witness.
#[derive(Clone, Debug, serde::Serialize, serde::Deserialize)]
pub struct Violation {
    /// canonical signature `<prop>|<clause>|<predicates>`
    pub signature: String,
    /// one line for humans
    pub detail: String,
    /// everything needed to re-execute (abstract schedule / op list / seed)
    pub replay: Value,
}

/// Accumulated result of one check run (mergeable across worker threads).
#[derive(Default, Debug, serde::Serialize, serde::Deserialize)]
pub struct Outcome {
    pub evaluations: u64,
    pub distinct: BTreeSet<u64>,
    pub samples: Vec<Value>,
    pub counters: BTreeMap<String, u64>,
    pub sets: BTreeMap<String, BTreeSet<String>>,
    pub violations: Vec<Violation>,
    pub inconclusive: Vec<String>,
    pub info: Vec<String>,
}

impl Outcome {
    pub fn count(&mut self, k: &str) {
        *self.counters.entry(k.to_string()).or_insert(0) += 1;
    }
    pub fn add(&mut self, k: &str, n: u64) {
        *self.counters.entry(k.to_string()).or_insert(0) += n;
    }
    pub fn get(&self, k: &str) -> u64 {
        self.counters.get(k).copied().unwrap_or(0)
    }
    pub fn note(&mut self, set: &str, v: impl Into<String>) {
        self.sets.entry(set.to_string()).or_default().insert(v.into());
    }
    pub fn sample(&mut self, v: Value, cap: usize) {
        if self.samples.len() < cap {
            self.samples.push(v);
        }
    }
    pub fn violation(&mut self, signature: impl Into<String>, detail: impl Into<String>, replay: Value) {
        self.violations.push(Violation { signature: signature.into(), detail: detail.into(), replay });
    }
    pub fn merge(&mut self, o: Outcome) {
        self.evaluations += o.evaluations;
        self.distinct.extend(o.distinct);
        for s in o.samples {
            if self.samples.len() < 6 {
                self.samples.push(s);
            }
        }
        for (k, v) in o.counters {
            *self.counters.entry(k).or_insert(0) += v;
        }
        for (k, v) in o.sets {
            self.sets.entry(k).or_default().extend(v);
        }
        self.violations.extend(o.violations);
        self.inconclusive.extend(o.inconclusive);
        for i in o.info {
            if self.info.len() < 40 {
                self.info.push(i);
            }
        }
    }
}

pub struct Known {
    /// signature -> description
    pub known: BTreeMap<String, String>,
}

pub fn load_known(ctx: &Ctx) -> Known {
    let mut known = BTreeMap::new();
    let p = ctx.verif_dir.join("known-findings.txt");
    if let Ok(s) = std::fs::read_to_string(&p) {
        for line in s.lines() {
            let line = line.trim();
            // known: property=C01 signature=<sig> :: <what fails>
            if let Some(rest) = line.strip_prefix("known:") {
                let rest = rest.trim();
                let (head, what) = match rest.split_once(" :: ") {
                    Some((h, w)) => (h, w),
                    None => (rest, ""),
                };
                let mut prop = "";
                let mut sig = "";
                for tok in head.split_whitespace() {
                    if let Some(v) = tok.strip_prefix("property=") {
                        prop = v;
                    }
                    if let Some(v) = tok.strip_prefix("signature=") {
                        sig = v;
                    }
                }
                if prop == ctx.prop && !sig.is_empty() {
                    known.insert(sig.to_string(), what.to_string());
                }
            }
            // `fixed:` lines suppress nothing.
        }
    }
    Known { known }
}

pub struct Floor {
    pub what: &'static str,
    pub have: u64,
    pub need: u64,
}

/// Write evidence, print verdict lines, return the process exit code.
pub fn finish(
    ctx: &Ctx,
    level: &str,
    rule: &str,
    mut out: Outcome,
    floors: Vec<Floor>,
    assumptions: Vec<String>,
    extra: Value,
) -> i32 {
    let known = load_known(ctx);
    // a replay (or a hand-picked single scenario) is not a coverage claim: floors do not apply
    let single = ctx.replay.is_some() || std::env::var("VERIF_ONLY").is_ok();
    for f in floors.iter().filter(|_| !single) {
        if f.have < f.need {
            out.inconclusive.push(format!("floor not reached: {} = {} < {}", f.what, f.have, f.need));
        }
    }
    let mut known_hits: BTreeMap<String, (String, u64)> = BTreeMap::new();
    let mut fresh: BTreeMap<String, Vec<&Violation>> = BTreeMap::new();
    for v in &out.violations {
        if let Some(what) = known.known.get(&v.signature) {
            let e = known_hits.entry(v.signature.clone()).or_insert((what.clone(), 0));
            e.1 += 1;
        } else {
            fresh.entry(v.signature.clone()).or_default().push(v);
        }
    }
    for (sig, (what, n)) in &known_hits {
        println!("KNOWN-FINDING: property={} {} [signature={} hits={}]", ctx.prop, what, sig, n);
    }
    let replay_dir = ctx.verif_dir.join("replays");
    let _ = std::fs::create_dir_all(&replay_dir);
    let mut n_viol = 0u64;
    let mut viol_list = vec![];
    for (sig, vs) in &fresh {
        n_viol += vs.len() as u64;
        let v = vs[0];
        let h = crate::rng::fnv(sig.as_bytes());
        let path = replay_dir.join(format!("{}-{:016x}.json", ctx.prop, h));
        let body = json!({
            "property": ctx.prop, "tier": ctx.tier.as_str(), "seed": ctx.seed,
            "signature": sig, "detail": v.detail, "occurrences": vs.len(), "replay": v.replay,
        });
        let _ = std::fs::write(&path, serde_json::to_string_pretty(&body).unwrap());
        println!("VIOLATION property={} replay={}", ctx.prop, path.display());
        eprintln!("  signature: {}\n  detail: {}\n  occurrences: {}", sig, v.detail, vs.len());
        viol_list.push(json!({"signature": sig, "detail": v.detail, "occurrences": vs.len()}));
    }
    for i in &out.inconclusive {
        eprintln!("INCONCLUSIVE property={} {}", ctx.prop, i);
    }
    let mut coverage = serde_json::Map::new();
    coverage.insert("evaluations".into(), json!(out.evaluations));
    coverage.insert("distinct_nontrivial".into(), json!(out.distinct.len()));
    coverage.insert("rule".into(), json!(rule));
    coverage.insert("samples".into(), Value::Array(out.samples.clone()));
    coverage.insert("counters".into(), json!(out.counters));
    let sets: BTreeMap<String, Value> = out
        .sets
        .iter()
        .map(|(k, v)| {
            let items: Vec<&String> = v.iter().take(200).collect();
            (k.clone(), json!({"count": v.len(), "items": items}))
        })
        .collect();
    coverage.insert("observed".into(), json!(sets));
    coverage.insert("inconclusive".into(), json!(out.inconclusive));
    coverage.insert("known_findings_hit".into(), json!(known_hits.iter().map(|(s, (w, n))| json!({"signature": s, "what": w, "hits": n})).collect::<Vec<_>>()));
    coverage.insert("violations_detail".into(), json!(viol_list));
    coverage.insert("info".into(), json!(out.info));
    if let Value::Object(m) = extra {
        for (k, v) in m {
            coverage.insert(k, v);
        }
    }
    let verdict = if n_viol > 0 { "violated" } else if !out.inconclusive.is_empty() { "inconclusive" } else { "held-on-observed" };
    coverage.insert("verdict".into(), json!(verdict));
    let ev = json!({
        "property_id": ctx.prop, "tier": ctx.tier.as_str(), "seed": ctx.seed, "level": level,
        "coverage": Value::Object(coverage), "assumptions": assumptions,
        "wall_s": ctx.started.elapsed().as_secs_f64(), "violations": n_viol,
    });
    let evdir = ctx.verif_dir.join("evidence");
    let _ = std::fs::create_dir_all(&evdir);
    // a replay / single scenario is not evidence of coverage: it gets its own file
    let evpath = evdir.join(if single { format!("{}.replay.json", ctx.prop) } else { format!("{}.json", ctx.prop) });
    std::fs::write(&evpath, serde_json::to_string_pretty(&ev).unwrap()).expect("write evidence");
    println!(
        "{} {} seed={} verdict={} evaluations={} distinct_nontrivial={} violations={} known_hits={} wall={:.1}s",
        ctx.prop, ctx.tier.as_str(), ctx.seed, verdict, out.evaluations, out.distinct.len(), n_viol,
        known_hits.values().map(|x| x.1).sum::<u64>(), ctx.started.elapsed().as_secs_f64()
    );
    if n_viol > 0 { 1 } else { 0 }
}
