//! Small deterministic PRNG (splitmix64 seeded xoshiro256**), no external crates.

#[derive(Clone, Debug)]
pub struct Rng {
    s: [u64; 4],
}

fn splitmix(x: &mut u64) -> u64 {
    *x = x.wrapping_add(0x9E3779B97F4A7C15);
    let mut z = *x;
    z = (z ^ (z >> 30)).wrapping_mul(0xBF58476D1CE4E5B9);
    z = (z ^ (z >> 27)).wrapping_mul(0x94D049BB133111EB);
    z ^ (z >> 31)
}

/// FNV-1a 64 over bytes, used to derive per-scenario seeds and to hash schedules.
pub fn fnv(bytes: &[u8]) -> u64 {
    let mut h: u64 = 0xcbf29ce484222325;
    for b in bytes {
        h ^= *b as u64;
        h = h.wrapping_mul(0x100000001b3);
    }
    h
}

impl Rng {
    pub fn new(seed: u64) -> Self {
        let mut x = seed;
        let s = [splitmix(&mut x), splitmix(&mut x), splitmix(&mut x), splitmix(&mut x)];
        Rng { s }
    }
    /// Seed for scenario `i` of property `prop` under run seed `seed`.
    pub fn for_scenario(seed: u64, prop: &str, i: u64) -> Self {
        let mut v = Vec::new();
        v.extend_from_slice(&seed.to_le_bytes());
        v.extend_from_slice(prop.as_bytes());
        v.extend_from_slice(&i.to_le_bytes());
        Rng::new(fnv(&v))
    }
    pub fn next(&mut self) -> u64 {
        let r = self.s[1].wrapping_mul(5).rotate_left(7).wrapping_mul(9);
        let t = self.s[1] << 17;
        self.s[2] ^= self.s[0];
        self.s[3] ^= self.s[1];
        self.s[1] ^= self.s[2];
        self.s[0] ^= self.s[3];
        self.s[2] ^= t;
        self.s[3] = self.s[3].rotate_left(45);
        r
    }
    pub fn below(&mut self, n: usize) -> usize {
        if n == 0 { 0 } else { (self.next() % n as u64) as usize }
    }
    pub fn range(&mut self, lo: usize, hi_incl: usize) -> usize {
        lo + self.below(hi_incl - lo + 1)
    }
    pub fn chance(&mut self, pct: u32) -> bool {
        self.next() % 100 < pct as u64
    }
    pub fn pick<'a, T>(&mut self, v: &'a [T]) -> &'a T {
        &v[self.below(v.len())]
    }
    pub fn shuffle<T>(&mut self, v: &mut [T]) {
        for i in (1..v.len()).rev() {
            let j = self.below(i + 1);
            v.swap(i, j);
        }
    }
    pub fn bytes<const N: usize>(&mut self) -> [u8; N] {
        let mut out = [0u8; N];
        for c in out.chunks_mut(8) {
            let r = self.next().to_le_bytes();
            c.copy_from_slice(&r[..c.len()]);
        }
        out
    }
    /// random bytes of random length in lo..lo+span
    pub fn vecn(&mut self, lo: usize, span: usize) -> Vec<u8> {
        let n = lo + self.below(span.max(1));
        self.vec(n)
    }
    pub fn vec(&mut self, n: usize) -> Vec<u8> {
        (0..n).map(|_| self.next() as u8).collect()
    }
}
