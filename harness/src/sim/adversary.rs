//! What a modified client can do: build any MLS message with the OpenMLS API from a member's own
//! stored state, wrap it correctly (NIP-44 under the right exporter secret, any `h` tag, any
//! `created_at`, fresh ephemeral signer).

use mdk_core::MDK;
use mdk_core::prelude::*;
use mdk_storage_traits::groups::GroupStorage;
use nostr::nips::nip44;
use nostr::{Event, EventBuilder, Keys, Kind, PublicKey, SecretKey, Tag, TagKind, Timestamp};
use openmls::prelude::*;
// explicit import: both preludes export a `GroupId` (glob ambiguity is an error on nightly)
use mdk_storage_traits::GroupId;
use openmls_basic_credential::SignatureKeyPair;
use tls_codec::Serialize as _;

pub fn exporter_secret<S: MdkStorageProvider>(m: &MDK<S>, gid: &GroupId, epoch: u64) -> Option<[u8; 32]> {
    m.provider.storage().get_group_exporter_secret(gid, epoch).ok().flatten().map(|s| *s.secret)
}

pub fn current_epoch<S: MdkStorageProvider>(m: &MDK<S>, gid: &GroupId) -> Option<u64> {
    m.load_mls_group(gid).ok().flatten().map(|g| g.epoch().as_u64())
}

pub fn nostr_group_id<S: MdkStorageProvider>(m: &MDK<S>, gid: &GroupId) -> Option<[u8; 32]> {
    m.get_group(gid).ok().flatten().map(|g| g.nostr_group_id)
}

/// NIP-44 wrap `payload` under `secret`, tag with `h`, sign with a fresh ephemeral key.
pub fn wrap_raw(secret: &[u8; 32], h: Option<&[u8; 32]>, payload: &[u8], ts: u64) -> Option<Event> {
    let sk = SecretKey::from_slice(secret).ok()?;
    let k = Keys::new(sk);
    // NIP-44 v2 refuses empty and > 65535-byte plaintexts
    let content = nip44::encrypt(k.secret_key(), &k.public_key, payload, nip44::Version::default()).ok()?;
    let mut b = EventBuilder::new(Kind::MlsGroupMessage, content).custom_created_at(Timestamp::from(ts));
    if let Some(h) = h {
        b = b.tag(Tag::custom(TagKind::h(), [hex::encode(h)]));
    }
    b.sign_with_keys(&Keys::generate()).ok()
}

/// Wrap under the member's current-epoch exporter secret and the nostr id it currently holds.
pub fn wrap_as<S: MdkStorageProvider>(m: &MDK<S>, gid: &GroupId, payload: &[u8], ts: u64) -> Option<Event> {
    let epoch = current_epoch(m, gid)?;
    // make sure the secret of the current epoch is cached (a message build does that)
    let secret = match exporter_secret(m, gid, epoch) {
        Some(s) => s,
        None => {
            let grp = m.load_mls_group(gid).ok().flatten()?;
            let v = grp.export_secret(m.provider.crypto(), "nostr", b"nostr", 32).ok()?;
            v.try_into().ok()?
        }
    };
    let nid = nostr_group_id(m, gid)?;
    wrap_raw(&secret, Some(&nid), payload, ts)
}

pub fn signer<S: MdkStorageProvider>(m: &MDK<S>, grp: &MlsGroup) -> Option<SignatureKeyPair> {
    let own = grp.own_leaf()?.signature_key().as_slice().to_vec();
    SignatureKeyPair::read(m.provider.storage(), &own, grp.ciphersuite().signature_algorithm())
}

/// A real MLS application message by this member with arbitrary plaintext bytes.
pub fn mls_app<S: MdkStorageProvider>(m: &MDK<S>, gid: &GroupId, plaintext: &[u8]) -> Option<Vec<u8>> {
    let mut grp = m.load_mls_group(gid).ok().flatten()?;
    let sg = signer(m, &grp)?;
    let out = grp.create_message(&m.provider, &sg, plaintext).ok()?;
    out.tls_serialize_detached().ok()
}

pub fn leaf_of<S: MdkStorageProvider>(m: &MDK<S>, gid: &GroupId, pk: &PublicKey) -> Option<LeafNodeIndex> {
    let grp = m.load_mls_group(gid).ok().flatten()?;
    grp.members().find(|mem| BasicCredential::try_from(mem.credential.clone()).map(|c| c.identity() == pk.to_bytes()).unwrap_or(false)).map(|mem| mem.index)
}

#[derive(Clone, Debug)]
pub enum RawProposal {
    Remove(PublicKey),
    Add(KeyPackage),
    SelfUpdate,
    Gce(Vec<u8>),
    Psk,
}

/// A standalone proposal message by this member. The proposal is removed from the author's own
/// queue again so that the author's later API calls are not affected.
pub fn mls_proposal<S: MdkStorageProvider>(m: &MDK<S>, gid: &GroupId, p: &RawProposal) -> Option<Vec<u8>> {
    let mut grp = m.load_mls_group(gid).ok().flatten()?;
    let sg = signer(m, &grp)?;
    let out = match p {
        RawProposal::Remove(pk) => {
            let idx = leaf_of(m, gid, pk)?;
            grp.propose_remove_member(&m.provider, &sg, idx).ok()?.0
        }
        RawProposal::Add(kp) => grp.propose_add_member(&m.provider, &sg, kp).ok()?.0,
        RawProposal::SelfUpdate => grp.propose_self_update(&m.provider, &sg, LeafNodeParameters::default()).ok()?.0,
        RawProposal::Gce(bytes) => {
            let mut ext = grp.extensions().clone();
            ext.add_or_replace(Extension::Unknown(0xF2EE, UnknownExtension(bytes.clone()))).ok()?;
            grp.propose_group_context_extensions(&m.provider, ext, &sg).ok()?.0
        }
        RawProposal::Psk => {
            return None;
        }
    };
    let bytes = out.tls_serialize_detached().ok()?;
    let _ = grp.clear_pending_proposals(m.provider.storage());
    Some(bytes)
}

#[derive(Clone, Debug, Default)]
pub struct RawCommit {
    pub adds: Vec<KeyPackage>,
    pub removes: Vec<PublicKey>,
    /// replace the marmot group-data extension with these raw bytes
    pub gce: Option<Vec<u8>>,
    /// include the proposals queued at the author (by reference)
    pub consume_queue: bool,
    pub force_self_update: bool,
    /// self-update path with a different credential identity
    pub new_identity: Option<PublicKey>,
    /// with `new_identity`: the new leaf also carries a fresh signature key (the commit is signed
    /// with the old one, the leaf with the new one - `build_with_new_signer`)
    pub new_signer: bool,
}

/// A commit built directly with the OpenMLS commit builder from the member's stored group state.
/// The pending commit is cleared again in the author's storage (the attacker keeps its state).
/// Returns (commit bytes, optional welcome bytes).
pub fn mls_commit<S: MdkStorageProvider>(m: &MDK<S>, gid: &GroupId, c: &RawCommit, keep_pending: bool) -> Option<(Vec<u8>, Option<Vec<u8>>)> {
    let mut grp = m.load_mls_group(gid).ok().flatten()?;
    let sg = signer(m, &grp)?;
    let sig_alg = grp.ciphersuite().signature_algorithm();
    let removes: Vec<LeafNodeIndex> = c.removes.iter().filter_map(|pk| leaf_of(m, gid, pk)).collect();
    let mut b = grp.commit_builder().consume_proposal_store(c.consume_queue).force_self_update(c.force_self_update).propose_adds(c.adds.clone()).propose_removals(removes);
    if let Some(bytes) = &c.gce {
        let mut ext = m.load_mls_group(gid).ok().flatten()?.extensions().clone();
        ext.add_or_replace(Extension::Unknown(0xF2EE, UnknownExtension(bytes.clone()))).ok()?;
        b = b.propose_group_context_extensions(ext).ok()?;
    }
    let mut fresh: Option<(SignatureKeyPair, CredentialWithKey)> = None;
    if let Some(pk) = &c.new_identity {
        let cred = BasicCredential::new(pk.to_bytes().to_vec());
        let own = grp_leaf_params(m, gid);
        if c.new_signer {
            let ns = SignatureKeyPair::new(sig_alg).ok()?;
            ns.store(m.provider.storage()).ok()?;
            let cwk = CredentialWithKey { credential: cred.into(), signature_key: ns.public().into() };
            let mut pb = LeafNodeParameters::builder().with_credential_with_key(cwk.clone());
            if let Some((caps, exts)) = own {
                pb = pb.with_capabilities(caps).with_extensions(exts);
            }
            b = b.leaf_node_parameters(pb.build());
            fresh = Some((ns, cwk));
        } else {
            let cwk = CredentialWithKey { credential: cred.into(), signature_key: sg.public().into() };
            b = b.leaf_node_parameters(LeafNodeParameters::builder().with_credential_with_key(cwk).build());
        }
    }
    let b = b.load_psks(m.provider.storage()).ok()?;
    let built = match &fresh {
        Some((ns, cwk)) => b.build_with_new_signer(m.provider.rand(), m.provider.crypto(), &sg, NewSignerBundle { signer: ns, credential_with_key: cwk.clone() }, |_| true).ok()?,
        None => b.build(m.provider.rand(), m.provider.crypto(), &sg, |_| true).ok()?,
    };
    let bundle = built.stage_commit(&m.provider).ok()?;
    let commit = bundle.commit().tls_serialize_detached().ok()?;
    let welcome = bundle.to_welcome_msg().and_then(|w| w.tls_serialize_detached().ok());
    if !keep_pending {
        let mut grp2 = m.load_mls_group(gid).ok().flatten()?;
        let _ = grp2.clear_pending_commit(m.provider.storage());
    }
    Some((commit, welcome))
}

fn grp_leaf_params<S: MdkStorageProvider>(m: &MDK<S>, gid: &GroupId) -> Option<(Capabilities, Extensions<LeafNode>)> {
    let grp = m.load_mls_group(gid).ok().flatten()?;
    let leaf = grp.own_leaf()?;
    Some((leaf.capabilities().clone(), leaf.extensions().clone()))
}

/// Raw bytes of the marmot group-data extension currently in the member's group context.
pub fn group_data_raw<S: MdkStorageProvider>(m: &MDK<S>, gid: &GroupId) -> Option<Vec<u8>> {
    let grp = m.load_mls_group(gid).ok().flatten()?;
    grp.extensions().iter().find_map(|e| match e {
        Extension::Unknown(0xF2EE, UnknownExtension(b)) => Some(b.clone()),
        _ => None,
    })
}

/// Extension bytes with selected fields changed (hand-written TLS writer, see gdext.rs).
pub fn group_data_bytes<S: MdkStorageProvider>(m: &MDK<S>, gid: &GroupId, f: impl FnOnce(&mut super::gdext::GdRaw)) -> Option<Vec<u8>> {
    let raw = group_data_raw(m, gid)?;
    let mut gd = super::gdext::GdRaw::decode(&raw).ok()?;
    f(&mut gd);
    Some(gd.encode())
}

// ---- MLS messages whose sender is NOT a member, and other wire kinds -------------------------------

fn verifiable_group_info<S: MdkStorageProvider>(m: &MDK<S>, gid: &GroupId) -> Option<(openmls::messages::group_info::VerifiableGroupInfo, Vec<u8>)> {
    use tls_codec::Deserialize as _;
    let grp = m.load_mls_group(gid).ok().flatten()?;
    let sg = signer(m, &grp)?;
    let out = grp.export_group_info(m.provider.crypto(), &sg, true).ok()?;
    let bytes = out.tls_serialize_detached().ok()?;
    match MlsMessageIn::tls_deserialize_exact(bytes.as_slice()).ok()?.extract() {
        MlsMessageBodyIn::GroupInfo(info) => Some((info, bytes)),
        _ => None,
    }
}

/// An MLS *external commit* (sender `new_member_commit`, a PublicMessage): member `m` hands the
/// GroupInfo of its current epoch to an outsider, who joins on its own with plain OpenMLS.
pub fn external_commit<S: MdkStorageProvider>(m: &MDK<S>, gid: &GroupId, joiner: &PublicKey) -> Option<Vec<u8>> {
    let grp = m.load_mls_group(gid).ok().flatten()?;
    let (info, _) = verifiable_group_info(m, gid)?;
    let outsider = MDK::new(mdk_memory_storage::MdkMemoryStorage::default());
    let sg = SignatureKeyPair::new(grp.ciphersuite().signature_algorithm()).ok()?;
    sg.store(outsider.provider.storage()).ok()?;
    let cwk = CredentialWithKey { credential: BasicCredential::new(joiner.to_bytes().to_vec()).into(), signature_key: sg.public().into() };
    let caps = Capabilities::new(None, Some(&[grp.ciphersuite()]), Some(&[ExtensionType::LastResort, ExtensionType::Unknown(0xF2EE)]), None, None);
    let cfg = MlsGroupJoinConfig::builder().use_ratchet_tree_extension(true).build();
    #[allow(deprecated)]
    let (_g, commit, _gi) = MlsGroup::join_by_external_commit(&outsider.provider, &sg, None, info, &cfg, Some(caps), None, b"", cwk).ok()?;
    commit.tls_serialize_detached().ok()
}

/// An external Add proposal by a would-be joiner (sender `new_member_proposal`, a PublicMessage).
pub fn join_proposal<S: MdkStorageProvider>(m: &MDK<S>, gid: &GroupId, joiner: &PublicKey) -> Option<Vec<u8>> {
    let grp = m.load_mls_group(gid).ok().flatten()?;
    let outsider = MDK::new(mdk_memory_storage::MdkMemoryStorage::default());
    let sg = SignatureKeyPair::new(grp.ciphersuite().signature_algorithm()).ok()?;
    sg.store(outsider.provider.storage()).ok()?;
    let cwk = CredentialWithKey { credential: BasicCredential::new(joiner.to_bytes().to_vec()).into(), signature_key: sg.public().into() };
    let caps = Capabilities::new(None, Some(&[grp.ciphersuite()]), Some(&[ExtensionType::LastResort, ExtensionType::Unknown(0xF2EE)]), None, None);
    let kp = KeyPackage::builder().leaf_node_capabilities(caps).build(grp.ciphersuite(), &outsider.provider, &sg, cwk).ok()?;
    let out = JoinProposal::new::<<mdk_core::MdkProvider<mdk_memory_storage::MdkMemoryStorage> as openmls_traits::OpenMlsProvider>::StorageProvider>(kp.key_package().clone(), grp.group_id().clone(), grp.epoch(), &sg).ok()?;
    out.tls_serialize_detached().ok()
}

/// The serialised GroupInfo of the member's current epoch as an MLS message (wrong body kind for
/// a group event).
pub fn group_info_message<S: MdkStorageProvider>(m: &MDK<S>, gid: &GroupId) -> Option<Vec<u8>> {
    verifiable_group_info(m, gid).map(|(_, b)| b)
}

/// A member's commit / proposal framed as a PublicMessage (plaintext wire format) instead of a
/// PrivateMessage. The member's stored configuration is put back afterwards.
pub fn public_message<S: MdkStorageProvider>(m: &MDK<S>, gid: &GroupId, commit: bool) -> Option<Vec<u8>> {
    let mut grp = m.load_mls_group(gid).ok().flatten()?;
    let sg = signer(m, &grp)?;
    let old = grp.configuration().clone();
    let plain = MlsGroupJoinConfig::builder()
        .wire_format_policy(PURE_PLAINTEXT_WIRE_FORMAT_POLICY)
        .use_ratchet_tree_extension(true)
        .sender_ratchet_configuration(old.sender_ratchet_configuration().clone())
        .build();
    grp.set_configuration(m.provider.storage(), &plain).ok()?;
    let out = if commit {
        let r = grp.commit_builder().force_self_update(true).load_psks(m.provider.storage()).ok().and_then(|b| b.build(m.provider.rand(), m.provider.crypto(), &sg, |_| true).ok()).and_then(|b| b.stage_commit(&m.provider).ok()).and_then(|b| b.commit().tls_serialize_detached().ok());
        let _ = grp.clear_pending_commit(m.provider.storage());
        r
    } else {
        let r = grp.propose_self_update(&m.provider, &sg, LeafNodeParameters::default()).ok().and_then(|(o, _)| o.tls_serialize_detached().ok());
        let _ = grp.clear_pending_proposals(m.provider.storage());
        r
    };
    let _ = grp.set_configuration(m.provider.storage(), &old);
    out
}
