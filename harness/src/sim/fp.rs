//! Fingerprint of everything the properties call "observable", read through the public API.

use mdk_core::MDK;
use mdk_core::prelude::*;
use mdk_storage_traits::groups::Pagination;
use openmls::prelude::{Proposal, Sender};
use tls_codec::Serialize as _;

use super::StateKey;

#[derive(Clone, Debug, PartialEq, Eq, Default)]
pub struct Fp {
    /// stored record (epoch, name, description, admins, image fields, nostr id, state, last-message pointer)
    pub rec: String,
    /// relay set
    pub rel: String,
    /// MLS: epoch, epoch authenticator, tree hash, group-context extensions, active flag
    pub mls: String,
    /// own leaf index (part of MLS but differs between members by construction)
    pub own: String,
    /// members
    pub mem: String,
    /// parsed group-data extension
    pub gd: String,
    /// pending proposals / pending commit
    pub pend: String,
    /// stored messages (processed_at excluded)
    pub msg: String,
    /// self-update obligation (Required / Completed, timestamp excluded)
    pub su: String,
}

impl Fp {
    /// names of the parts that differ
    pub fn diff(&self, o: &Fp) -> Vec<&'static str> {
        let mut v = vec![];
        if self.rec != o.rec {
            v.push("REC");
        }
        if self.rel != o.rel {
            v.push("REL");
        }
        if self.mls != o.mls {
            v.push("MLS");
        }
        if self.own != o.own {
            v.push("OWN");
        }
        if self.mem != o.mem {
            v.push("MEM");
        }
        if self.gd != o.gd {
            v.push("GD");
        }
        if self.pend != o.pend {
            v.push("PEND");
        }
        if self.msg != o.msg {
            v.push("MSG");
        }
        if self.su != o.su {
            v.push("SU");
        }
        v
    }
    /// the parts C01 calls "same state" (between different members)
    pub fn convergence_view(&self) -> (String, String, String, String, String) {
        (self.mls.clone(), self.mem.clone(), self.gd.clone(), self.rel.clone(), self.rec_mirror())
    }
    /// mirrored part of REC (without state, last-message pointer)
    pub fn rec_mirror(&self) -> String {
        self.rec.split(" || ").next().unwrap_or("").to_string()
    }
    pub fn part(&self, name: &str) -> &str {
        match name {
            "REC" => &self.rec,
            "REL" => &self.rel,
            "MLS" => &self.mls,
            "OWN" => &self.own,
            "MEM" => &self.mem,
            "GD" => &self.gd,
            "PEND" => &self.pend,
            "MSG" => &self.msg,
            _ => &self.su,
        }
    }
}

pub fn state_key<S: MdkStorageProvider>(m: &MDK<S>, g: usize, gid: &GroupId) -> Option<StateKey> {
    let grp = m.load_mls_group(gid).ok().flatten()?;
    Some((g, grp.epoch().as_u64(), hex::encode(grp.epoch_authenticator().as_slice())))
}

pub fn fmt_gd(gd: &NostrGroupDataExtension) -> String {
    format!(
        "v{} nid={} name={:?} desc={:?} admins=[{}] relays=[{}] ih={:?} ik={:?} in={:?} iu={:?}",
        gd.version,
        hex::encode(gd.nostr_group_id),
        gd.name,
        gd.description,
        gd.admins.iter().map(|p| p.to_hex()[..8].to_string()).collect::<Vec<_>>().join(","),
        gd.relays.iter().map(|r| r.to_string()).collect::<Vec<_>>().join(","),
        gd.image_hash.map(hex::encode),
        gd.image_key.map(hex::encode),
        gd.image_nonce.map(hex::encode),
        gd.image_upload_key.map(hex::encode),
    )
}

pub fn fmt_message(m: &message_types::Message) -> String {
    format!(
        "{}|by={}|k={}|at={}|c={:?}|tags={}|ev_ok={}|w={}|e={:?}|{:?}",
        &m.id.to_hex()[..10],
        &m.pubkey.to_hex()[..8],
        m.kind.as_u16(),
        m.created_at.as_secs(),
        m.content,
        serde_json::to_string(&m.tags).unwrap_or_default(),
        m.event.pubkey == m.pubkey && m.event.content == m.content && m.event.created_at == m.created_at && m.event.kind == m.kind,
        &m.wrapper_event_id.to_hex()[..8],
        m.epoch,
        m.state
    )
}

/// id -> processed_at of every stored message, plus the listing order in both sort modes. Not part
/// of `Fp` (wall-clock values must not be compared across clients or runs); compared only before /
/// after a re-delivery at one client, where nothing may be rewritten.
pub fn processed_at_view<S: MdkStorageProvider>(m: &MDK<S>, gid: &GroupId) -> String {
    let mut out = String::new();
    for sort in [mdk_storage_traits::groups::MessageSortOrder::CreatedAtFirst, mdk_storage_traits::groups::MessageSortOrder::ProcessedAtFirst] {
        match m.get_messages(gid, Some(Pagination::with_sort_order(Some(10_000), Some(0), sort))) {
            Ok(ms) => {
                out.push_str(&format!("{sort:?}: "));
                out.push_str(&ms.iter().map(|x| format!("{}@{}", &x.id.to_hex()[..8], x.processed_at.as_secs())).collect::<Vec<_>>().join(" "));
                out.push('\n');
            }
            Err(_) => out.push_str("<err>\n"),
        }
    }
    out
}

pub fn fingerprint<S: MdkStorageProvider>(m: &MDK<S>, gid: &GroupId) -> Fp {
    let mut fp = Fp::default();
    let rec = m.get_group(gid).ok().flatten();
    match &rec {
        None => fp.rec = "<none>".into(),
        Some(r) => {
            fp.rec = format!(
                "epoch={} name={:?} desc={:?} admins=[{}] ih={:?} ik={:?} in={:?} nid={} || state={:?} last=({:?},{:?})",
                r.epoch,
                r.name,
                r.description,
                r.admin_pubkeys.iter().map(|p| p.to_hex()[..8].to_string()).collect::<Vec<_>>().join(","),
                r.image_hash.map(hex::encode),
                r.image_key.as_ref().map(|k| hex::encode(**k)),
                r.image_nonce.as_ref().map(|k| hex::encode(**k)),
                hex::encode(r.nostr_group_id),
                r.state,
                r.last_message_id.map(|i| i.to_hex()[..10].to_string()),
                r.last_message_at.map(|t| t.as_secs()),
            );
            fp.su = match r.self_update_state {
                group_types::SelfUpdateState::Required => "Required".into(),
                group_types::SelfUpdateState::CompletedAt(_) => "Completed".into(),
            };
        }
    }
    fp.rel = match m.get_relays(gid) {
        Ok(r) => r.iter().map(|x| x.to_string()).collect::<Vec<_>>().join(","),
        Err(_) => "<err>".into(),
    };
    match m.load_mls_group(gid) {
        Ok(Some(grp)) => {
            let tree = grp.export_ratchet_tree().tls_serialize_detached().unwrap_or_default();
            let ext = grp.extensions().tls_serialize_detached().unwrap_or_default();
            fp.mls = format!(
                "epoch={} auth={} tree={:016x} ext={:016x} active={}",
                grp.epoch().as_u64(),
                hex::encode(grp.epoch_authenticator().as_slice()),
                crate::rng::fnv(&tree),
                crate::rng::fnv(&ext),
                grp.is_active()
            );
            fp.own = format!("{:?}", grp.own_leaf_index());
            fp.gd = match NostrGroupDataExtension::from_group(&grp) {
                Ok(gd) => fmt_gd(&gd),
                Err(_) => "<err>".into(),
            };
            let mut props: Vec<String> = grp
                .pending_proposals()
                .map(|p| {
                    let kind = match p.proposal() {
                        Proposal::Add(_) => "Add".to_string(),
                        Proposal::Remove(r) => format!("Remove({})", r.removed().u32()),
                        Proposal::Update(_) => "Update".into(),
                        Proposal::GroupContextExtensions(_) => "GCE".into(),
                        Proposal::PreSharedKey(_) => "PSK".into(),
                        _ => "Other".into(),
                    };
                    let by = match p.sender() {
                        Sender::Member(i) => format!("m{}", i.u32()),
                        _ => "ext".into(),
                    };
                    format!("{kind}by{by}")
                })
                .collect();
            props.sort();
            fp.pend = format!("props=[{}] pending_commit={}", props.join(","), grp.pending_commit().is_some());
        }
        Ok(None) => fp.mls = "<none>".into(),
        Err(_) => fp.mls = "<err>".into(),
    }
    fp.mem = match m.get_members(gid) {
        Ok(ms) => ms.iter().map(|p| p.to_hex()[..8].to_string()).collect::<Vec<_>>().join(","),
        Err(_) => "<err>".into(),
    };
    fp.msg = match m.get_messages(gid, Some(Pagination::new(Some(10_000), Some(0)))) {
        Ok(mut ms) => {
            ms.sort_by_key(|x| x.id);
            ms.iter().map(fmt_message).collect::<Vec<_>>().join("\n")
        }
        Err(_) => "<err>".into(),
    };
    fp
}

/// Client-wide part: group list + pending welcomes.
pub fn client_wide<S: MdkStorageProvider>(m: &MDK<S>) -> String {
    let mut groups: Vec<String> = m.get_groups().map(|v| v.iter().map(|g| format!("{}:{:?}", hex::encode(g.mls_group_id.as_slice()), g.state)).collect()).unwrap_or_default();
    groups.sort();
    let mut w: Vec<String> = m.get_pending_welcomes(None).map(|v| v.iter().map(|w| w.id.to_hex()[..10].to_string()).collect()).unwrap_or_default();
    w.sort();
    format!("groups=[{}] welcomes=[{}]", groups.join(","), w.join(","))
}
