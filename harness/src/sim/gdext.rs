//! Independent (hand-written) TLS writer/reader for the marmot group-data extension (0xF2EE),
//! used to forge extension bytes and to cross-check the library's decoder.

#[derive(Clone, Debug, PartialEq, Eq)]
pub struct GdRaw {
    pub version: u16,
    pub nostr_group_id: [u8; 32],
    pub name: Vec<u8>,
    pub description: Vec<u8>,
    pub admins: Vec<[u8; 32]>,
    pub relays: Vec<Vec<u8>>,
    pub image_hash: Vec<u8>,
    pub image_key: Vec<u8>,
    pub image_nonce: Vec<u8>,
    pub image_upload_key: Vec<u8>,
}

pub fn put_varint(out: &mut Vec<u8>, n: usize) {
    if n < 64 {
        out.push(n as u8);
    } else if n < 16384 {
        out.extend_from_slice(&((n as u16) | 0x4000).to_be_bytes());
    } else {
        out.extend_from_slice(&((n as u32) | 0x8000_0000).to_be_bytes());
    }
}

fn put_vec(out: &mut Vec<u8>, v: &[u8]) {
    put_varint(out, v.len());
    out.extend_from_slice(v);
}

impl GdRaw {
    pub fn encode(&self) -> Vec<u8> {
        let mut o = vec![];
        o.extend_from_slice(&self.version.to_be_bytes());
        o.extend_from_slice(&self.nostr_group_id);
        put_vec(&mut o, &self.name);
        put_vec(&mut o, &self.description);
        let mut a = vec![];
        for x in &self.admins {
            a.extend_from_slice(x);
        }
        put_vec(&mut o, &a);
        let mut r = vec![];
        for x in &self.relays {
            put_vec(&mut r, x);
        }
        put_vec(&mut o, &r);
        put_vec(&mut o, &self.image_hash);
        put_vec(&mut o, &self.image_key);
        put_vec(&mut o, &self.image_nonce);
        put_vec(&mut o, &self.image_upload_key);
        o
    }

    /// Strict decode: minimal varints, no trailing bytes.
    pub fn decode(b: &[u8]) -> Result<GdRaw, String> {
        let mut p = 0usize;
        fn take<'a>(b: &'a [u8], p: &mut usize, n: usize) -> Result<&'a [u8], String> {
            if *p + n > b.len() {
                return Err("truncated".into());
            }
            let s = &b[*p..*p + n];
            *p += n;
            Ok(s)
        }
        fn varint(b: &[u8], p: &mut usize) -> Result<usize, String> {
            let first = *take(b, p, 1)?.first().unwrap();
            match first >> 6 {
                0 => Ok(first as usize),
                1 => {
                    let second = take(b, p, 1)?[0];
                    let v = (((first & 0x3f) as usize) << 8) | second as usize;
                    if v < 64 { Err("non-minimal varint".into()) } else { Ok(v) }
                }
                2 => {
                    let rest = take(b, p, 3)?;
                    let v = (((first & 0x3f) as usize) << 24) | ((rest[0] as usize) << 16) | ((rest[1] as usize) << 8) | rest[2] as usize;
                    if v < 16384 { Err("non-minimal varint".into()) } else { Ok(v) }
                }
                _ => Err("bad varint prefix".into()),
            }
        }
        fn vec(b: &[u8], p: &mut usize) -> Result<Vec<u8>, String> {
            let n = varint(b, p)?;
            Ok(take(b, p, n)?.to_vec())
        }
        let version = u16::from_be_bytes(take(b, &mut p, 2)?.try_into().unwrap());
        let nostr_group_id: [u8; 32] = take(b, &mut p, 32)?.try_into().unwrap();
        let name = vec(b, &mut p)?;
        let description = vec(b, &mut p)?;
        let a = vec(b, &mut p)?;
        if a.len() % 32 != 0 {
            return Err("admins not a multiple of 32".into());
        }
        let admins = a.chunks(32).map(|c| c.try_into().unwrap()).collect();
        let r = vec(b, &mut p)?;
        let mut relays = vec![];
        let mut q = 0usize;
        while q < r.len() {
            relays.push(vec(&r, &mut q)?);
        }
        let image_hash = vec(b, &mut p)?;
        let image_key = vec(b, &mut p)?;
        let image_nonce = vec(b, &mut p)?;
        let image_upload_key = vec(b, &mut p)?;
        if p != b.len() {
            return Err("trailing bytes".into());
        }
        Ok(GdRaw { version, nostr_group_id, name, description, admins, relays, image_hash, image_key, image_nonce, image_upload_key })
    }
}
