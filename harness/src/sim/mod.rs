//! E1 - world simulator: N clients, each `Keys` + `MDK<S>`, a relay log, harness-controlled
//! delivery, per-step recording. Everything is observed through the public API
//! (plus `load_mls_group` from the repo's own `debug-examples` feature).

pub mod adversary;
pub mod fp;
pub mod gdext;
pub mod scenario;

use std::collections::{BTreeSet, HashMap, HashSet};
use std::path::PathBuf;
use std::sync::{Arc, Mutex};

use mdk_core::callback::{MdkCallback, RollbackInfo};
use mdk_core::prelude::*;
use mdk_core::{MDK, MdkConfig};
use mdk_memory_storage::MdkMemoryStorage;
use mdk_sqlite_storage::{EncryptionConfig, MdkSqliteStorage};
use nostr::{Event, EventBuilder, EventId, Keys, Kind, PublicKey, RelayUrl, Timestamp, UnsignedEvent};

use crate::rng::Rng;

pub use fp::Fp;

#[derive(Clone, Copy, Debug, PartialEq, Eq, serde::Serialize, serde::Deserialize)]
pub enum BackendKind {
    Memory,
    Sqlite,
    SqlCipher,
}

pub enum AnyMdk {
    Mem(MDK<MdkMemoryStorage>),
    Sql(MDK<MdkSqliteStorage>),
}

#[macro_export]
macro_rules! with_mdk {
    ($any:expr, $m:ident => $body:expr) => {
        match &$any {
            $crate::sim::AnyMdk::Mem($m) => $body,
            $crate::sim::AnyMdk::Sql($m) => $body,
        }
    };
}

#[derive(Debug, Default)]
pub struct Cb(pub Mutex<Vec<RollbackInfo>>);
impl MdkCallback for Cb {
    fn on_rollback(&self, i: &RollbackInfo) {
        self.0.lock().unwrap().push(i.clone());
    }
}

/// (group index, epoch, epoch authenticator hex) - identifies an MLS group state.
pub type StateKey = (usize, u64, String);

#[derive(Clone, Copy, Debug, PartialEq, Eq, serde::Serialize, serde::Deserialize)]
pub enum PubKind {
    App,
    Commit,
    Proposal,
}

#[derive(Clone, Copy, Debug, PartialEq, Eq, serde::Serialize, serde::Deserialize)]
pub enum OwnMode {
    /// apply own commit when its relay copy comes back (OwnCommitPending path)
    Echo,
    /// merge_pending_commit right after publishing (documented flow)
    Immediate,
}

/// One published event (the relay log is append-only).
#[derive(Clone, Debug)]
pub struct Pub {
    pub ev: Event,
    pub kind: PubKind,
    pub author: usize,
    pub g: usize,
    /// author's MLS state when the event was created
    pub at: StateKey,
    /// proposals (log indices) a commit carries by reference
    pub refs: Vec<usize>,
    pub what: String,
    /// for application messages: the rumor as given by the sender
    pub rumor: Option<UnsignedEvent>,
    pub mode: OwnMode,
    /// welcome rumors produced with this commit: (joiner client index, rumor)
    pub welcomes: Vec<(usize, UnsignedEvent)>,
    /// harness-built hostile event (not made through the API)
    pub adversarial: bool,
}

pub struct Client {
    pub idx: usize,
    pub keys: Keys,
    pub mdk: AnyMdk,
    pub backend: BackendKind,
    pub cb: Arc<Cb>,
    pub cfg: MdkConfig,
    pub db_path: Option<PathBuf>,
    pub db_key: Option<[u8; 32]>,
    /// every MLS state this client has been in, per group
    pub reached: HashSet<StateKey>,
    /// log indices offered at least once
    pub seen: HashSet<usize>,
    /// log index -> result class of the first offer
    pub first_result: HashMap<usize, String>,
    /// log index -> state the client was in when the event was first offered
    pub first_offer_state: HashMap<usize, Option<StateKey>>,
    /// log index -> position of the first offer in this client's delivery sequence
    pub first_offer_seq: HashMap<usize, usize>,
    /// log index -> nostr group id this client routed by when the event was first offered
    pub first_offer_nid: HashMap<usize, Option<[u8; 32]>>,
    pub offers: usize,
    /// log indices that took effect here (C07 candidates)
    pub effective: BTreeSet<usize>,
    /// transitions: (state before, log idx or usize::MAX for a local merge, state after)
    pub transitions: Vec<(StateKey, usize, StateKey)>,
    /// value of `offers` when the transition with the same index happened
    pub transition_seq: Vec<usize>,
    /// per group: log index of own commit currently pending (echo mode)
    pub pending_own: HashMap<usize, usize>,
    /// per group: proposals (log idx) currently queued at this client
    pub queued_props: HashMap<usize, Vec<usize>>,
    pub restarts: u32,
    pub rollbacks_seen: usize,
    /// value of `offers` at the most recent rollback (0 = never)
    pub last_rollback_seq: usize,
    /// log indices whose delivery rolled the group back and was then refused
    pub rollback_then_refused: Vec<usize>,
}

#[derive(Clone, Debug)]
pub struct GroupCtx {
    pub gid: GroupId,
    /// client index of the silent oracle replica (never acts, never admin), if any
    pub oracle: Option<usize>,
    /// clients that have ever been invited to this group
    pub invited: BTreeSet<usize>,
}

pub struct World {
    pub clients: Vec<Client>,
    pub groups: Vec<GroupCtx>,
    pub log: Vec<Pub>,
    pub base_ts: u64,
    pub t: u64,
    pub trace: Vec<String>,
    pub dir: PathBuf,
    pub tag: String,
    pub msg_counter: u64,
}

/// relay pool: plain hosts, and URLs with a path - with and without a trailing slash, with a port
/// (a serialiser that normalises differently from the parser shows up as a relay set that differs
/// between the creator's record, the extension and the other members)
pub fn relay(i: usize) -> RelayUrl {
    let s = match i % 5 {
        0 | 1 => format!("wss://relay{i}.example.com"),
        2 => format!("wss://relay{i}.example.com/nostr/"),
        3 => format!("wss://relay{i}.example.com/a/b"),
        _ => format!("wss://relay{i}.example.com:4848/x/y/"),
    };
    RelayUrl::parse(&s).unwrap()
}

pub fn result_class(r: &Result<MessageProcessingResult, mdk_core::Error>) -> String {
    match r {
        Ok(MessageProcessingResult::ApplicationMessage(_)) => "ApplicationMessage".into(),
        Ok(MessageProcessingResult::Proposal(_)) => "Proposal(auto-commit)".into(),
        Ok(MessageProcessingResult::PendingProposal { .. }) => "PendingProposal".into(),
        Ok(MessageProcessingResult::IgnoredProposal { .. }) => "IgnoredProposal".into(),
        Ok(MessageProcessingResult::ExternalJoinProposal { .. }) => "ExternalJoinProposal".into(),
        Ok(MessageProcessingResult::Commit { .. }) => "Commit".into(),
        Ok(MessageProcessingResult::Unprocessable { .. }) => "Unprocessable".into(),
        Ok(MessageProcessingResult::PreviouslyFailed) => "PreviouslyFailed".into(),
        Err(e) => format!("Err({})", error_variant(e)),
    }
}

pub fn error_variant(e: &mdk_core::Error) -> String {
    let d = format!("{:?}", e);
    d.split(|c: char| !(c.is_ascii_alphanumeric() || c == '_')).next().unwrap_or("").to_string()
}

pub fn is_refusal(class: &str) -> bool {
    class.starts_with("Err(") || class == "Unprocessable" || class == "PreviouslyFailed" || class == "IgnoredProposal"
}

impl Client {
    pub fn new(idx: usize, backend: BackendKind, cfg: MdkConfig, dir: &std::path::Path, tag: &str, rng: &mut Rng) -> Client {
        let keys = Keys::generate();
        let cb = Arc::new(Cb::default());
        let (db_path, db_key) = match backend {
            BackendKind::Memory => (None, None),
            BackendKind::Sqlite => (Some(dir.join(format!("{tag}-c{idx}.db"))), None),
            BackendKind::SqlCipher => (Some(dir.join(format!("{tag}-c{idx}.db"))), Some(rng.bytes::<32>())),
        };
        let mdk = Self::open(backend, &cfg, &cb, db_path.as_deref(), db_key.as_ref());
        Client {
            idx,
            keys,
            mdk,
            backend,
            cb,
            cfg,
            db_path,
            db_key,
            reached: HashSet::new(),
            seen: HashSet::new(),
            first_result: HashMap::new(),
            first_offer_state: HashMap::new(),
            first_offer_seq: HashMap::new(),
            first_offer_nid: HashMap::new(),
            offers: 0,
            effective: BTreeSet::new(),
            transitions: vec![],
            transition_seq: vec![],
            pending_own: HashMap::new(),
            queued_props: HashMap::new(),
            restarts: 0,
            rollbacks_seen: 0,
            last_rollback_seq: 0,
            rollback_then_refused: vec![],
        }
    }

    pub fn open(backend: BackendKind, cfg: &MdkConfig, cb: &Arc<Cb>, path: Option<&std::path::Path>, key: Option<&[u8; 32]>) -> AnyMdk {
        match backend {
            BackendKind::Memory => AnyMdk::Mem(MDK::builder(MdkMemoryStorage::default()).with_config(cfg.clone()).with_callback(cb.clone()).build()),
            BackendKind::Sqlite => {
                let s = MdkSqliteStorage::new_unencrypted(path.unwrap()).expect("open sqlite");
                AnyMdk::Sql(MDK::builder(s).with_config(cfg.clone()).with_callback(cb.clone()).build())
            }
            BackendKind::SqlCipher => {
                let s = MdkSqliteStorage::new_with_key(path.unwrap(), EncryptionConfig::new(*key.unwrap())).expect("open sqlcipher");
                AnyMdk::Sql(MDK::builder(s).with_config(cfg.clone()).with_callback(cb.clone()).build())
            }
        }
    }

    /// Drop the MDK instance and its storage and re-create both from the database file
    /// (clean shutdown). Memory clients cannot restart.
    pub fn restart(&mut self) -> bool {
        if self.backend == BackendKind::Memory {
            return false;
        }
        // replace with a throw-away memory instance first so that the old connection is closed
        let old = std::mem::replace(&mut self.mdk, AnyMdk::Mem(MDK::new(MdkMemoryStorage::default())));
        drop(old);
        self.mdk = Self::open(self.backend, &self.cfg, &self.cb, self.db_path.as_deref(), self.db_key.as_ref());
        self.restarts += 1;
        true
    }

    pub fn pk(&self) -> PublicKey {
        self.keys.public_key()
    }

    pub fn key_package_event(&self) -> Event {
        let (c, tags, _) = with_mdk!(self.mdk, m => m.create_key_package_for_event(&self.keys.public_key(), vec![relay(0)])).expect("create key package");
        EventBuilder::new(Kind::MlsKeyPackage, c).tags(tags).sign_with_keys(&self.keys).expect("sign kp")
    }

    pub fn state(&self, g: usize, gid: &GroupId) -> Option<StateKey> {
        with_mdk!(self.mdk, m => fp::state_key(m, g, gid))
    }

    pub fn group_state(&self, gid: &GroupId) -> Option<group_types::GroupState> {
        with_mdk!(self.mdk, m => m.get_group(gid).ok().flatten().map(|g| g.state))
    }

    pub fn fp(&self, gid: &GroupId) -> Fp {
        with_mdk!(self.mdk, m => fp::fingerprint(m, gid))
    }

    pub fn processed_at_view(&self, gid: &GroupId) -> String {
        with_mdk!(self.mdk, m => fp::processed_at_view(m, gid))
    }

    pub fn remove_files(&self) {
        if let Some(p) = &self.db_path {
            for suf in ["", "-journal", "-wal", "-shm"] {
                let _ = std::fs::remove_file(format!("{}{}", p.display(), suf));
            }
        }
    }
}

pub struct WorldParams {
    pub n_members: usize,
    /// indices (within 0..n_members) of admins; creator 0 is always included
    pub admins: Vec<usize>,
    pub backends: Vec<BackendKind>,
    pub with_oracle: bool,
    pub cfg: MdkConfig,
    pub name: String,
}

impl World {
    pub fn empty(dir: PathBuf, tag: String) -> World {
        let now = Timestamp::now().as_secs();
        World { clients: vec![], groups: vec![], log: vec![], base_ts: now - 900, t: now - 900, trace: vec![], dir, tag, msg_counter: 0 }
    }

    pub fn add_client(&mut self, backend: BackendKind, cfg: MdkConfig, rng: &mut Rng) -> usize {
        let idx = self.clients.len();
        let c = Client::new(idx, backend, cfg, &self.dir, &self.tag, rng);
        self.clients.push(c);
        idx
    }

    /// Create a group: creator = members[0]; all others join through their welcome.
    pub fn create_group(&mut self, members: &[usize], admins: &[usize], oracle: Option<usize>, name: &str) -> usize {
        let g = self.groups.len();
        let creator = members[0];
        let mut invitees: Vec<usize> = members[1..].to_vec();
        if let Some(o) = oracle {
            invitees.push(o);
        }
        let kps: Vec<Event> = invitees.iter().map(|i| self.clients[*i].key_package_event()).collect();
        let mut admin_pks: Vec<PublicKey> = admins.iter().map(|i| self.clients[*i].pk()).collect();
        if !admin_pks.contains(&self.clients[creator].pk()) {
            admin_pks.push(self.clients[creator].pk());
        }
        let cfg = NostrGroupConfigData::new(name.to_string(), format!("desc of {name}"), None, None, None, vec![relay(0), relay(2)], admin_pks);
        mdk_core::verif::set_created_at(Some(self.t));
        let creator_pk = self.clients[creator].pk();
        let res = with_mdk!(self.clients[creator].mdk, m => m.create_group(&creator_pk, kps, cfg)).expect("create_group");
        let gid = res.group.mls_group_id.clone();
        for (k, i) in invitees.iter().enumerate() {
            let w = &res.welcome_rumors[k];
            let wid = EventId::from_byte_array(crate::rng::Rng::new((g * 1000 + *i) as u64 ^ 0xABCD).bytes::<32>());
            let wl = with_mdk!(self.clients[*i].mdk, m => m.process_welcome(&wid, w)).expect("process_welcome");
            with_mdk!(self.clients[*i].mdk, m => m.accept_welcome(&wl)).expect("accept_welcome");
        }
        let mut invited: BTreeSet<usize> = members.iter().copied().collect();
        if let Some(o) = oracle {
            invited.insert(o);
        }
        self.groups.push(GroupCtx { gid: gid.clone(), oracle, invited: invited.clone() });
        for i in invited {
            if let Some(s) = self.clients[i].state(g, &gid) {
                self.clients[i].reached.insert(s);
            }
        }
        g
    }

    pub fn gid(&self, g: usize) -> GroupId {
        self.groups[g].gid.clone()
    }

    pub fn note(&mut self, s: String) {
        if crate::capture::trace_to_stderr() {
            eprintln!("{s}");
        }
        if self.trace.len() < 4000 {
            self.trace.push(s);
        }
    }

    pub fn cleanup(&self) {
        for c in &self.clients {
            c.remove_files();
        }
    }
}
