//! Scheduler, member actions, delivery, fixpoint and the race-free oracle replica.

use std::collections::{BTreeMap, BTreeSet};

use mdk_core::MdkConfig;
use mdk_core::prelude::*;
use nostr::{EventBuilder, EventId, Kind, Timestamp, UnsignedEvent};
use serde_json::{Value, json};

use super::*;
use crate::rng::Rng;
use crate::with_mdk;

#[derive(Clone, Debug)]
pub struct SimCfg {
    pub members: (usize, usize),
    pub steps: (usize, usize),
    /// deliver an event to a member only once that member has been in the event's creation state
    pub causal: bool,
    /// additionally withhold a commit until the proposals it references were delivered
    pub proposals_first: bool,
    /// per own commit: chance of `merge_pending_commit` right away instead of waiting for the echo
    pub immediate_pct: u32,
    pub restart_pct: u32,
    pub dup_pct: u32,
    pub w_fork: u32,
    pub w_msg: u32,
    pub w_leave: u32,
    pub w_deliver: u32,
    pub max_fork_width: usize,
    pub allow_add: bool,
    pub allow_remove: bool,
    pub allow_rotate_nid: bool,
    pub allow_admin_change: bool,
    pub sqlite_pct: u32,
    pub sqlcipher: bool,
    pub retention: usize,
    pub mdk_cfg: MdkConfig,
    /// rumor created_at drawn from this many distinct values (ties for C18)
    pub rumor_ts_values: u64,
    pub second_group: bool,
    /// flow control that keeps every fork within the configured retention depth
    pub bounded_depth: bool,
    /// linear commits applied by everybody before the driven phase (so that histories also run at
    /// epochs 9, 10, 11 ... - two-digit epoch numbers - and with a full snapshot queue)
    pub warmup_commits: usize,
    /// extra weight of nostr-id rotations among an admin's commits (C08: rotations that lose a race
    /// after having been applied - the id they introduced must stop routing)
    pub rotate_boost: u32,
}

impl SimCfg {
    pub fn clean() -> SimCfg {
        SimCfg {
            members: (3, 5),
            steps: (30, 70),
            causal: true,
            proposals_first: true,
            immediate_pct: 0,
            restart_pct: 0,
            dup_pct: 5,
            w_fork: 18,
            w_msg: 22,
            w_leave: 0,
            w_deliver: 60,
            max_fork_width: 3,
            allow_add: false,
            allow_remove: false,
            allow_rotate_nid: true,
            allow_admin_change: true,
            sqlite_pct: 0,
            sqlcipher: false,
            retention: 5,
            mdk_cfg: MdkConfig::default(),
            rumor_ts_values: 3,
            second_group: false,
            bounded_depth: true,
            warmup_commits: 0,
            rotate_boost: 0,
        }
    }
}

#[derive(Clone, Debug, PartialEq, Eq, serde::Serialize, serde::Deserialize)]
pub enum CommitKind {
    SelfUpdate,
    Rename,
    Describe,
    Relays,
    /// the relay list becomes EMPTY (only used where no member is added afterwards: a welcome of a
    /// group without relays is refused by the joiner - known C15 finding)
    RelaysNone,
    RotateNid,
    Image,
    Admins,
    Add,
    Remove,
}

/// One entry of the abstract schedule (what replay re-executes).
#[derive(Clone, Debug, serde::Serialize, serde::Deserialize)]
pub enum Step {
    Msg { m: usize, g: usize },
    Commit { m: usize, g: usize, kind: CommitKind, ts_off: u64, mode: OwnMode, arg: u64 },
    Leave { m: usize, g: usize },
    Deliver { m: usize, idx: usize },
    Restart { m: usize },
    Merge { m: usize, g: usize },
}

#[derive(Clone, Debug, Default)]
pub struct DeliveryOutcome {
    pub class: String,
    pub before: Option<StateKey>,
    pub after: Option<StateKey>,
    pub rollbacks: Vec<mdk_core::callback::RollbackInfo>,
    pub produced: Option<usize>,
    pub message: Option<message_types::Message>,
    pub panicked: Option<String>,
}

impl DeliveryOutcome {
    pub fn changed(&self) -> bool {
        self.before != self.after
    }
}

impl World {
    pub fn is_admin_now(&self, m: usize, g: usize) -> bool {
        let gid = self.gid(g);
        let pk = self.clients[m].pk();
        with_mdk!(self.clients[m].mdk, x => x.load_mls_group(&gid).ok().flatten().and_then(|grp| NostrGroupDataExtension::from_group(&grp).ok()).map(|gd| gd.admins.contains(&pk)).unwrap_or(false))
    }

    pub fn is_active(&self, m: usize, g: usize) -> bool {
        let gid = self.gid(g);
        self.clients[m].group_state(&gid) == Some(group_types::GroupState::Active)
    }

    /// what the MLS layer itself says (None = no MLS group stored)
    pub fn mls_active(&self, m: usize, g: usize) -> Option<bool> {
        let gid = self.gid(g);
        with_mdk!(self.clients[m].mdk, x => x.load_mls_group(&gid).ok().flatten().map(|grp| grp.is_active()))
    }

    pub fn members_at(&self, m: usize, g: usize) -> BTreeSet<nostr::PublicKey> {
        let gid = self.gid(g);
        with_mdk!(self.clients[m].mdk, x => x.get_members(&gid).unwrap_or_default())
    }

    pub fn client_by_pk(&self, pk: &nostr::PublicKey) -> Option<usize> {
        self.clients.iter().position(|c| c.pk() == *pk)
    }

    fn next_body(&mut self, m: usize, g: usize) -> String {
        self.msg_counter += 1;
        format!("body-m{m}-g{g}-n{}", self.msg_counter)
    }

    /// Member `m` sends an application message with a unique body.
    pub fn act_message(&mut self, m: usize, g: usize, rumor_ts: u64) -> Option<usize> {
        let gid = self.gid(g);
        let at = self.clients[m].state(g, &gid)?;
        let body = self.next_body(m, g);
        let mut rumor: UnsignedEvent = EventBuilder::new(Kind::Custom(9), body.clone()).custom_created_at(Timestamp::from(rumor_ts)).build(self.clients[m].pk());
        rumor.ensure_id();
        mdk_core::verif::set_created_at(Some(self.t));
        let r = with_mdk!(self.clients[m].mdk, x => x.create_message(&gid, rumor.clone()));
        match r {
            Ok(ev) => {
                let idx = self.log.len();
                self.note(format!("A m{m} msg e{idx} `{body}` @{}:{}", at.1, &at.2[..6]));
                self.log.push(Pub { ev, kind: PubKind::App, author: m, g, at, refs: vec![], what: body, rumor: Some(rumor), mode: OwnMode::Echo, welcomes: vec![], adversarial: false });
                self.clients[m].seen.insert(idx);
                Some(idx)
            }
            Err(e) => {
                crate::capture::error("create_message", &e);
                self.note(format!("A m{m} msg failed: {}", error_variant(&e)));
                None
            }
        }
    }

    /// Member `m` creates a commit through the public API. Returns the log index.
    pub fn act_commit(&mut self, m: usize, g: usize, kind: &CommitKind, ts: u64, mode: OwnMode, arg: u64, rng: &mut Rng) -> Option<usize> {
        let gid = self.gid(g);
        let at = self.clients[m].state(g, &gid)?;
        mdk_core::verif::set_created_at(Some(ts));
        let mut joiners: Vec<usize> = vec![];
        let what;
        let res: Result<UpdateGroupResult, mdk_core::Error> = match kind {
            CommitKind::SelfUpdate => {
                what = "self_update".to_string();
                with_mdk!(self.clients[m].mdk, x => x.self_update(&gid))
            }
            CommitKind::Rename => {
                what = format!("rename n{arg}");
                // one name in eleven is the empty string (boundary value of every text field)
                let name = if arg % 11 == 0 { String::new() } else { format!("name-{arg}") };
                with_mdk!(self.clients[m].mdk, x => x.update_group_data(&gid, NostrGroupDataUpdate::new().name(name)))
            }
            CommitKind::Describe => {
                what = format!("describe d{arg}");
                let d = if arg % 13 == 0 { String::new() } else { format!("description {arg} \u{2603}") };
                with_mdk!(self.clients[m].mdk, x => x.update_group_data(&gid, NostrGroupDataUpdate::new().description(d)))
            }
            CommitKind::Relays => {
                let n = 1 + (arg % 3) as usize;
                let relays: Vec<_> = (0..n).map(|i| relay((arg as usize + i) % 5)).collect();
                what = format!("relays {:?}", relays.iter().map(|r| r.to_string()).collect::<Vec<_>>());
                with_mdk!(self.clients[m].mdk, x => x.update_group_data(&gid, NostrGroupDataUpdate::new().relays(relays)))
            }
            CommitKind::RelaysNone => {
                what = "relays []".to_string();
                with_mdk!(self.clients[m].mdk, x => x.update_group_data(&gid, NostrGroupDataUpdate::new().relays(vec![])))
            }
            CommitKind::RotateNid => {
                let nid: [u8; 32] = Rng::new(arg ^ 0x4e1d).bytes::<32>();
                what = format!("rotate nostr id {}", hex::encode(&nid[..4]));
                with_mdk!(self.clients[m].mdk, x => x.update_group_data(&gid, NostrGroupDataUpdate::new().nostr_group_id(nid)))
            }
            CommitKind::Image => {
                let mut r = Rng::new(arg ^ 0x1a6e);
                what = "image fields".to_string();
                let upd = if arg % 4 == 0 {
                    NostrGroupDataUpdate::new().image_hash(None)
                } else {
                    NostrGroupDataUpdate::new().image_hash(Some(r.bytes::<32>())).image_key(Some(r.bytes::<32>())).image_nonce(Some(r.bytes::<12>())).image_upload_key(Some(r.bytes::<32>()))
                };
                with_mdk!(self.clients[m].mdk, x => x.update_group_data(&gid, upd))
            }
            CommitKind::Admins => {
                // new admin set: self + a subset of current members (never the oracle replica)
                let oracle_pk = self.groups[g].oracle.map(|o| self.clients[o].pk());
                let mut admins = vec![self.clients[m].pk()];
                for pk in self.members_at(m, g) {
                    if Some(pk) != oracle_pk && pk != self.clients[m].pk() && rng.chance(40) {
                        admins.push(pk);
                    }
                }
                what = format!("admins -> {}", admins.len());
                with_mdk!(self.clients[m].mdk, x => x.update_group_data(&gid, NostrGroupDataUpdate::new().admins(admins)))
            }
            CommitKind::Add => {
                let backend = self.clients[m].backend;
                let cfg = self.clients[m].cfg.clone();
                let j = self.add_client(if backend == BackendKind::SqlCipher { BackendKind::Sqlite } else { backend }, cfg, rng);
                joiners.push(j);
                let kp = self.clients[j].key_package_event();
                what = format!("add c{j}");
                with_mdk!(self.clients[m].mdk, x => x.add_members(&gid, &[kp]))
            }
            CommitKind::Remove => {
                let oracle_pk = self.groups[g].oracle.map(|o| self.clients[o].pk());
                let cands: Vec<_> = self.members_at(m, g).into_iter().filter(|pk| Some(*pk) != oracle_pk && *pk != self.clients[m].pk()).collect();
                if cands.is_empty() {
                    return None;
                }
                let target = cands[(arg as usize) % cands.len()];
                what = format!("remove {}", self.client_by_pk(&target).map(|i| format!("c{i}")).unwrap_or("?".into()));
                with_mdk!(self.clients[m].mdk, x => x.remove_members(&gid, &[target]))
            }
        };
        match res {
            Ok(u) => {
                let idx = self.log.len();
                let refs = self.clients[m].queued_props.get(&g).cloned().unwrap_or_default();
                let welcomes: Vec<(usize, UnsignedEvent)> = u.welcome_rumors.unwrap_or_default().into_iter().zip(joiners.iter().copied()).map(|(w, j)| (j, w)).collect();
                for (j, _) in &welcomes {
                    self.groups[g].invited.insert(*j);
                }
                self.note(format!("A m{m} commit e{idx} [{what}] ts+{} mode={:?} refs={:?} @{}:{}", ts.saturating_sub(self.base_ts), mode, refs, at.1, &at.2[..6]));
                self.log.push(Pub { ev: u.evolution_event, kind: PubKind::Commit, author: m, g, at, refs, what, rumor: None, mode, welcomes, adversarial: false });
                self.clients[m].pending_own.insert(g, idx);
                if mode == OwnMode::Immediate {
                    self.act_merge(m, g);
                }
                Some(idx)
            }
            Err(e) => {
                crate::capture::error("commit-api", &e);
                self.note(format!("A m{m} commit [{what}] failed: {}", error_variant(&e)));
                None
            }
        }
    }

    /// `merge_pending_commit` for the client's own pending commit.
    pub fn act_merge(&mut self, m: usize, g: usize) -> bool {
        let gid = self.gid(g);
        let Some(idx) = self.clients[m].pending_own.get(&g).copied() else { return false };
        let before = self.clients[m].state(g, &gid);
        let r = with_mdk!(self.clients[m].mdk, x => x.merge_pending_commit(&gid));
        let after = self.clients[m].state(g, &gid);
        self.clients[m].pending_own.remove(&g);
        self.clients[m].seen.insert(idx);
        match r {
            Ok(()) => {
                if let (Some(b), Some(a)) = (before, after.clone()) {
                    if a != b {
                        self.clients[m].transitions.push((b, usize::MAX - idx, a.clone()));
                        let sq = self.clients[m].offers;
                        self.clients[m].transition_seq.push(sq);
                        self.clients[m].reached.insert(a);
                        self.clients[m].queued_props.remove(&g);
                    }
                }
                self.note(format!("  m{m} merged own e{idx} immediately -> {:?}", after.as_ref().map(|s| (s.1, s.2[..6].to_string()))));
                true
            }
            Err(e) => {
                crate::capture::error("merge_pending_commit", &e);
                self.note(format!("  m{m} merge_pending_commit failed: {}", error_variant(&e)));
                false
            }
        }
    }

    /// Member leaves: publishes a self-remove proposal.
    pub fn act_leave(&mut self, m: usize, g: usize) -> Option<usize> {
        let gid = self.gid(g);
        let at = self.clients[m].state(g, &gid)?;
        mdk_core::verif::set_created_at(Some(self.t));
        let r = with_mdk!(self.clients[m].mdk, x => x.leave_group(&gid));
        match r {
            Ok(u) => {
                let idx = self.log.len();
                self.note(format!("A m{m} leave-proposal e{idx} @{}:{}", at.1, &at.2[..6]));
                self.log.push(Pub { ev: u.evolution_event, kind: PubKind::Proposal, author: m, g, at, refs: vec![], what: "leave".into(), rumor: None, mode: OwnMode::Echo, welcomes: vec![], adversarial: false });
                self.clients[m].seen.insert(idx);
                Some(idx)
            }
            Err(e) => {
                crate::capture::error("leave_group", &e);
                self.note(format!("A m{m} leave failed: {}", error_variant(&e)));
                None
            }
        }
    }

    /// Hand log event `idx` to client `m` (`process_message`), recording everything.
    pub fn deliver(&mut self, m: usize, idx: usize, auto_mode: OwnMode) -> DeliveryOutcome {
        let p = self.log[idx].clone();
        let g = p.g;
        let gid = self.gid(g);
        let before = self.clients[m].state(g, &gid);
        let first = !self.clients[m].first_result.contains_key(&idx);
        self.clients[m].offers += 1;
        if first {
            self.clients[m].first_offer_state.insert(idx, before.clone());
            let nid = with_mdk!(self.clients[m].mdk, x => x.get_group(&gid).ok().flatten().map(|r| r.nostr_group_id));
            self.clients[m].first_offer_nid.insert(idx, nid);
            let seq = self.clients[m].offers;
            self.clients[m].first_offer_seq.insert(idx, seq);
        }
        self.clients[m].seen.insert(idx);
        let nb = self.clients[m].cb.0.lock().unwrap().len();
        // a wrapper timestamp for an auto-commit that this delivery may produce
        mdk_core::verif::set_created_at(Some(self.t));
        let r = std::panic::catch_unwind(std::panic::AssertUnwindSafe(|| with_mdk!(self.clients[m].mdk, x => x.process_message(&p.ev))));
        let mut out = DeliveryOutcome { before: before.clone(), ..Default::default() };
        let r = match r {
            Ok(r) => r,
            Err(pn) => {
                out.panicked = Some(crate::par::panic_msg(&pn));
                out.class = "PANIC".into();
                out.after = self.clients[m].state(g, &gid);
                return out;
            }
        };
        let after = self.clients[m].state(g, &gid);
        if crate::capture::is_active() {
            match &r {
                Ok(v) => crate::capture::value("process_message", v),
                Err(e) => crate::capture::error("process_message", e),
            }
            self.learn_secrets(m, g);
        }
        out.class = result_class(&r);
        out.after = after.clone();
        out.rollbacks = self.clients[m].cb.0.lock().unwrap()[nb..].to_vec();
        self.clients[m].rollbacks_seen += out.rollbacks.len();
        if !out.rollbacks.is_empty() {
            self.clients[m].last_rollback_seq = self.clients[m].offers;
        }
        if first {
            self.clients[m].first_result.insert(idx, out.class.clone());
        }
        if !out.rollbacks.is_empty() && is_refusal(&out.class) {
            self.clients[m].rollback_then_refused.push(idx);
        }
        let changed = before != after;
        if changed {
            if let (Some(b), Some(a)) = (before.clone(), after.clone()) {
                self.clients[m].transitions.push((b, idx, a.clone()));
                let sq = self.clients[m].offers;
                self.clients[m].transition_seq.push(sq);
                self.clients[m].reached.insert(a);
            }
            self.clients[m].queued_props.remove(&g);
            // own pending commit may have been wiped by applying someone else's commit
            let still = with_mdk!(self.clients[m].mdk, x => x.load_mls_group(&gid).ok().flatten().map(|grp| grp.pending_commit().is_some()).unwrap_or(false));
            if !still {
                self.clients[m].pending_own.remove(&g);
            }
        }
        match &r {
            Ok(MessageProcessingResult::ApplicationMessage(msg)) => {
                out.message = Some(msg.clone());
                self.clients[m].effective.insert(idx);
            }
            Ok(MessageProcessingResult::PendingProposal { .. }) => {
                self.clients[m].queued_props.entry(g).or_default().push(idx);
                self.clients[m].effective.insert(idx);
            }
            Ok(MessageProcessingResult::Proposal(u)) => {
                // admin auto-committed a leave proposal: a new commit by `m` enters the log
                let at = before.clone().unwrap();
                let mut refs = self.clients[m].queued_props.get(&g).cloned().unwrap_or_default();
                refs.push(idx);
                self.clients[m].queued_props.entry(g).or_default().push(idx);
                let cidx = self.log.len();
                self.log.push(Pub { ev: u.evolution_event.clone(), kind: PubKind::Commit, author: m, g, at, refs, what: format!("auto-commit of leave e{idx}"), rumor: None, mode: auto_mode, welcomes: vec![], adversarial: false });
                self.clients[m].pending_own.insert(g, cidx);
                self.clients[m].effective.insert(idx);
                out.produced = Some(cidx);
            }
            Ok(MessageProcessingResult::Commit { .. }) => {
                if changed {
                    self.clients[m].effective.insert(idx);
                }
            }
            _ => {}
        }
        let st = |s: &Option<StateKey>| s.as_ref().map(|s| format!("{}:{}", s.1, &s.2[..6])).unwrap_or("-".into());
        self.note(format!(
            "D m{m} e{idx}({:?} by m{} @{}:{}) -> {}{}  [{} -> {}]",
            p.kind,
            p.author,
            p.at.1,
            &p.at.2[..6],
            out.class,
            if out.rollbacks.is_empty() { String::new() } else { format!(" ROLLBACK->{}", out.rollbacks[0].target_epoch) },
            st(&before),
            st(&after)
        ));
        if let Some(cidx) = out.produced
            && auto_mode == OwnMode::Immediate
        {
            self.act_merge(m, g);
            let _ = cidx;
        }
        out
    }

    /// Oldest commit in the log that member `m` has not been offered yet, is eligible, and was
    /// created `retention` or more epochs below m's current epoch (the boundary depth itself is driven): it must be delivered before
    /// m moves on, or a rollback to it would need a snapshot that retention has already pruned.
    pub fn overdue_commit(&self, m: usize, g: usize, retention: usize, causal: bool, proposals_first: bool) -> Option<usize> {
        let gid = self.gid(g);
        let cur = self.clients[m].state(g, &gid)?.1;
        (0..self.log.len()).find(|i| {
            let p = &self.log[*i];
            p.g == g && p.kind == PubKind::Commit && !self.clients[m].seen.contains(i) && p.at.1 + (retention as u64) <= cur && self.eligible(m, *i, causal, proposals_first)
        })
    }

    pub fn max_epoch(&self, g: usize) -> u64 {
        let gid = self.gid(g);
        self.clients.iter().enumerate().filter(|(i, _)| Some(*i) != self.groups[g].oracle).filter_map(|(_, c)| c.state(g, &gid)).map(|s| s.1).max().unwrap_or(0)
    }

    /// C14: register what is sensitive about client `m`'s view of group `g` right now.
    pub fn learn_secrets(&self, m: usize, g: usize) {
        use crate::sim::adversary as adv;
        let gid = self.gid(g);
        crate::capture::secret("mls-group-id", gid.as_slice());
        with_mdk!(self.clients[m].mdk, x => {
            if let Some(n) = adv::nostr_group_id(x, &gid) { crate::capture::secret("nostr-group-id", &n); }
            if let Some(e) = adv::current_epoch(x, &gid) {
                for ep in e.saturating_sub(2)..=e {
                    if let Some(sec) = adv::exporter_secret(x, &gid, ep) { crate::capture::secret("exporter-secret", &sec); }
                }
            }
            if let Ok(Some(grp)) = x.load_mls_group(&gid) {
                if let Ok(gd) = NostrGroupDataExtension::from_group(&grp) {
                    if let Some(k) = gd.image_key { crate::capture::secret("image-key", &k); }
                    if let Some(k) = gd.image_upload_key { crate::capture::secret("image-upload-seed", &k); }
                    if let Some(k) = gd.image_nonce { crate::capture::secret("image-nonce", &k); }
                }
            }
        });
        if let Some(k) = self.clients[m].db_key {
            crate::capture::secret("database-key", &k);
        }
    }

    pub fn eligible(&self, m: usize, idx: usize, causal: bool, proposals_first: bool) -> bool {
        let p = &self.log[idx];
        if !self.groups[p.g].invited.contains(&m) {
            return false;
        }
        if causal && !self.clients[m].reached.contains(&p.at) {
            return false;
        }
        if proposals_first && p.kind == PubKind::Commit && p.refs.iter().any(|r| !self.clients[m].seen.contains(r)) {
            return false;
        }
        true
    }

    /// Joiner processes and accepts its welcome.
    pub fn join(&mut self, j: usize, commit_idx: usize) -> bool {
        let p = self.log[commit_idx].clone();
        let Some((_, rumor)) = p.welcomes.iter().find(|(c, _)| *c == j) else { return false };
        let wid = EventId::from_byte_array(Rng::new((commit_idx * 7919 + j) as u64).bytes::<32>());
        let r = with_mdk!(self.clients[j].mdk, x => x.process_welcome(&wid, rumor));
        match r {
            Ok(w) => {
                let ok = with_mdk!(self.clients[j].mdk, x => x.accept_welcome(&w)).is_ok();
                let gid = self.gid(p.g);
                if let Some(s) = self.clients[j].state(p.g, &gid) {
                    self.clients[j].reached.insert(s);
                }
                self.note(format!("J c{j} joined via e{commit_idx} ok={ok}"));
                ok
            }
            Err(e) => {
                crate::capture::error("process_welcome", &e);
                self.note(format!("J c{j} process_welcome failed {}", error_variant(&e)));
                false
            }
        }
    }

    /// Walk the MIP-03 canonical chain with the oracle replica of group `g`:
    /// at each state the winner among commits created on that state is min (created_at, id hex)
    /// among those the library's own validation accepts. Returns (canonical commit indices,
    /// canonical states in order).
    pub fn oracle_walk(&mut self, g: usize) -> (Vec<usize>, Vec<StateKey>) {
        let Some(o) = self.groups[g].oracle else { return (vec![], vec![]) };
        let gid = self.gid(g);
        let mut chain = vec![];
        let mut states = vec![];
        let mut guard = 0;
        loop {
            guard += 1;
            if guard > 500 {
                break;
            }
            let Some(s) = self.clients[o].state(g, &gid) else { break };
            states.push(s.clone());
            // proposals and application messages of this state first (causal order)
            let here: Vec<usize> = (0..self.log.len()).filter(|i| self.log[*i].g == g && self.log[*i].at == s && self.log[*i].kind != PubKind::Commit && !self.log[*i].adversarial).collect();
            for i in here {
                if !self.clients[o].first_result.contains_key(&i) {
                    self.deliver(o, i, OwnMode::Echo);
                }
            }
            let mut cands: Vec<usize> = (0..self.log.len()).filter(|i| self.log[*i].g == g && self.log[*i].kind == PubKind::Commit && self.log[*i].at == s && !self.log[*i].adversarial).collect();
            if cands.is_empty() {
                break;
            }
            cands.sort_by_key(|i| (self.log[*i].ev.created_at.as_secs(), self.log[*i].ev.id.to_hex()));
            let mut advanced = false;
            for w in cands {
                let d = self.deliver(o, w, OwnMode::Echo);
                if d.changed() {
                    chain.push(w);
                    advanced = true;
                    break;
                }
            }
            if !advanced {
                break;
            }
            if !self.is_active(o, g) {
                break;
            }
        }
        (chain, states)
    }

    /// Offer every member every event again until a full pass changes nothing.
    /// Returns (passes used, reached fixpoint).
    pub fn fixpoint(&mut self, g: usize, members: &[usize], causal: bool, proposals_first: bool, max_passes: usize, mut on_delivery: impl FnMut(&mut World, usize, usize, &DeliveryOutcome)) -> (usize, bool) {
        let gid = self.gid(g);
        for pass in 0..max_passes {
            let mut changed = false;
            for &m in members {
                let before = self.clients[m].fp(&gid);
                let mut i = 0;
                while i < self.log.len() {
                    if self.log[i].g == g && self.eligible(m, i, causal, proposals_first) {
                        let mode = self.log[i].mode;
                        let d = self.deliver(m, i, mode);
                        on_delivery(self, m, i, &d);
                    }
                    i += 1;
                }
                // echo-mode committers that still hold a pending commit nobody superseded: the
                // echo was offered above (their own event is in the log)
                if self.clients[m].fp(&gid) != before {
                    changed = true;
                }
            }
            if !changed {
                return (pass + 1, true);
            }
        }
        (max_passes, false)
    }
}

/// Compact JSON rendering of the relay log for evidence samples / replay files.
pub fn log_json(w: &World) -> Value {
    Value::Array(
        w.log
            .iter()
            .enumerate()
            .map(|(i, p)| json!({"e": i, "kind": format!("{:?}", p.kind), "by": p.author, "g": p.g, "at_epoch": p.at.1, "at": &p.at.2[..8], "ts": p.ev.created_at.as_secs() - w.base_ts, "id": &p.ev.id.to_hex()[..8], "what": p.what, "refs": p.refs, "mode": format!("{:?}", p.mode)}))
            .collect(),
    )
}

pub fn trace_tail(w: &World, n: usize) -> Vec<String> {
    let len = w.trace.len();
    w.trace[len.saturating_sub(n)..].to_vec()
}

pub fn count_by<T: Ord + Clone>(items: impl Iterator<Item = T>) -> BTreeMap<T, usize> {
    let mut m = BTreeMap::new();
    for i in items {
        *m.entry(i).or_insert(0) += 1;
    }
    m
}
