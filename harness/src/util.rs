pub fn first_words(s: &str, n: usize) -> String {
    s.split_whitespace().take(n).collect::<Vec<_>>().join("_").chars().filter(|c| c.is_ascii_alphanumeric() || *c == '_' || *c == '-').take(80).collect()
}
pub fn short(s: &str, n: usize) -> String {
    s.chars().take(n).collect()
}

/// last `n` characters
pub fn tail(s: &str, n: usize) -> String {
    let k = s.chars().count();
    s.chars().skip(k.saturating_sub(n)).collect()
}
