//! Entry point of the build without feature `full` (used under Miri): storage-level workloads on
//! the memory backend only.

use mdk_memory_storage::MdkMemoryStorage;

use super::model::{Model, diff};
use super::ops::*;
use super::stress::*;
use super::universe::*;
use crate::report::Ctx;
use crate::rng::Rng;

pub fn run(ctx: &Ctx) -> i32 {
    let seed = ctx.seed;
    let u = Universe::new(seed);
    let mut bad = 0;
    // (1) single-threaded differential vs the model (UB screen of the memory half of C09/C10)
    {
        let mut rng = Rng::new(seed);
        let s = MdkMemoryStorage::default();
        let mut model = Model::default();
        let cfg = GenCfg { snapshot_weight: 20, mls_weight: 20, message_weight: 30, over_limit: false, nid_collision: false };
        let mut g = Gen::new(&mut rng, cfg);
        let first = Op::SaveGroup(GroupSpec { nid_of: None, name: 0, desc: 0, ..g.group_spec(0) });
        model.apply(&u, &first);
        apply(&s, &u, &first);
        let mut n = 0;
        for _ in 0..40 {
            let mut op = g.next();
            if let Op::SnapCreate { g: gi, .. } = &op
                && !model.group_exists(*gi)
            {
                op = Op::SaveGroup(GroupSpec { nid_of: None, name: 0, desc: 0, ..g.group_spec(*gi) });
            }
            if let Op::SaveGroup(spec) = &mut op {
                spec.nid_of = None;
            }
            let rm = model.apply(&u, &op);
            let r1 = apply(&s, &u, &op);
            n += 1;
            if rm != r1 {
                println!("MIRI-DIFF op {:?}: model {:?} memory {:?}", op, rm, r1);
                bad += 1;
            }
        }
        let d = diff(&model.dump(&u), &dump(&s, &u), |_| true);
        if !d.is_empty() {
            println!("MIRI-DIFF state: {:?}", d[0]);
            bad += 1;
        }
        println!("MIRI single-threaded ops={n}");
    }
    // (2) threads on one storage instance
    {
        let s = MdkMemoryStorage::default();
        let cfg = StressCfg { threads: 3, ops_per_thread: 12, yield_pct: 30, groups: 2 };
        let rep = run_stress(&s, &u, &cfg, seed);
        println!("MIRI threaded ops={} reads={} writes={} violations={} panics={}", rep.histories_ops, rep.reads, rep.writes, rep.violations.len(), rep.panics.len());
        for v in rep.violations.iter().take(5) {
            println!("MIRI-VIOLATION {} :: {}", v.0, v.1);
        }
        bad += rep.violations.len() + rep.panics.len();
    }
    // (3) snapshot cut under load
    {
        let s = MdkMemoryStorage::default();
        let rep = run_snapshot_cut(&s, &u, 6, 2, seed);
        println!("MIRI snapshot-cut snapshots={} violations={}", rep.snapshots_checked, rep.violations.len());
        for v in rep.violations.iter().take(5) {
            println!("MIRI-VIOLATION {} :: {}", v.0, v.1);
        }
        bad += rep.violations.len();
    }
    // (4) concurrent claims of one nostr group id
    {
        let s = MdkMemoryStorage::default();
        let rep = run_claims(&s, &u, 3, 5, seed);
        println!("MIRI claims ops={} violations={}", rep.histories_ops, rep.violations.len());
        for v in rep.violations.iter().take(5) {
            println!("MIRI-VIOLATION {} :: {}", v.0, v.1);
        }
        bad += rep.violations.len();
    }
    // (5) rollback under readers
    {
        let s = MdkMemoryStorage::default();
        let rep = run_rollback_readers(&s, &u, 6, 2, seed);
        println!("MIRI rollback-readers ops={} violations={}", rep.histories_ops, rep.violations.len());
        for v in rep.violations.iter().take(5) {
            println!("MIRI-VIOLATION {} :: {}", v.0, v.1);
        }
        bad += rep.violations.len();
    }
    // (6) calls racing on one snapshot
    {
        let s = MdkMemoryStorage::default();
        let rep = run_rollback_races(&s, &u, 3, 3, seed);
        println!("MIRI rollback-races ops={} violations={}", rep.histories_ops, rep.violations.len());
        for v in rep.violations.iter().take(5) {
            println!("MIRI-VIOLATION {} :: {}", v.0, v.1);
        }
        bad += rep.violations.len();
    }
    if bad > 0 { 1 } else { 0 }
}
