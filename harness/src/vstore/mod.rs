//! E2 - storage-level model / differential / thread-stress engine.
pub mod model;
pub mod ops;
pub mod universe;
