//! E2 - storage-level model / differential / thread-stress engine.
pub mod model;
pub mod ops;
pub mod universe;
pub mod stress;
pub mod stall;
#[cfg(not(feature = "full"))]
pub mod miri_main;
