//! Plain reference model of the storage contract: BTreeMaps, "last write wins", the documented
//! comparators re-implemented independently of the library.

use std::cmp::Ordering;
use std::collections::{BTreeMap, BTreeSet};

use mdk_storage_traits::groups::types::{Group, GroupExporterSecret};
use mdk_storage_traits::messages::types::{Message, MessageState, ProcessedMessage, ProcessedMessageState};
use mdk_storage_traits::welcomes::types::{ProcessedWelcome, Welcome, WelcomeState};
use nostr::RelayUrl;

use super::ops::*;
use super::universe::*;

#[derive(Clone, Default, Debug)]
pub struct GroupScoped {
    pub record: Option<Group>,
    pub relays: BTreeSet<RelayUrl>,
    pub secrets: BTreeMap<u64, GroupExporterSecret>,
    pub gd: BTreeMap<u8, Blob>,
    pub proposals: BTreeMap<Blob, Blob>,
    pub leaves: Vec<Blob>,
    pub epk: BTreeMap<(u8, u32), Vec<Blob>>,
}

#[derive(Clone, Default, Debug)]
pub struct Model {
    pub groups: BTreeMap<usize, GroupScoped>,
    pub messages: BTreeMap<(usize, usize), Message>,
    pub processed: BTreeMap<usize, ProcessedMessage>,
    pub welcomes: BTreeMap<usize, Welcome>,
    pub proc_welcomes: BTreeMap<usize, ProcessedWelcome>,
    pub snapshots: BTreeMap<(usize, usize), GroupScoped>,
    pub kp: BTreeMap<u8, Blob>,
    pub psk: BTreeMap<u8, Blob>,
    pub sig: BTreeMap<u8, Blob>,
    pub enc: BTreeMap<u8, Blob>,
}

/// documented display order: created_at DESC, processed_at DESC, id DESC (newest first)
fn display_desc(a: &Message, b: &Message) -> Ordering {
    b.created_at.as_secs().cmp(&a.created_at.as_secs()).then(b.processed_at.as_secs().cmp(&a.processed_at.as_secs())).then(b.id.as_bytes().cmp(a.id.as_bytes()))
}
/// documented processed order: processed_at DESC, created_at DESC, id DESC
fn processed_desc(a: &Message, b: &Message) -> Ordering {
    b.processed_at.as_secs().cmp(&a.processed_at.as_secs()).then(b.created_at.as_secs().cmp(&a.created_at.as_secs())).then(b.id.as_bytes().cmp(a.id.as_bytes()))
}

impl Model {
    fn gs(&mut self, g: usize) -> &mut GroupScoped {
        self.groups.entry(g).or_default()
    }
    pub fn group_exists(&self, g: usize) -> bool {
        self.groups.get(&g).is_some_and(|x| x.record.is_some())
    }
    fn nid_owner(&self, nid: &[u8; 32]) -> Option<usize> {
        self.groups.iter().find(|(_, gs)| gs.record.as_ref().is_some_and(|r| &r.nostr_group_id == nid)).map(|(g, _)| *g)
    }

    pub fn sorted_messages(&self, g: usize, processed_first: bool) -> Vec<&Message> {
        let mut v: Vec<&Message> = self.messages.iter().filter(|((gg, _), _)| *gg == g).map(|(_, m)| m).collect();
        if processed_first {
            v.sort_by(|a, b| processed_desc(a, b));
        } else {
            v.sort_by(|a, b| display_desc(a, b));
        }
        v
    }

    /// Expected result of `messages(g, limit, offset, sort)` as id list; `None` = must be refused.
    pub fn page(&self, g: usize, limit: Option<usize>, offset: Option<usize>, processed_first: bool) -> Option<String> {
        let limit = limit.unwrap_or(1000);
        let offset = offset.unwrap_or(0);
        if !(1..=10_000).contains(&limit) || !self.group_exists(g) {
            return None;
        }
        let v = self.sorted_messages(g, processed_first);
        Some(v.iter().skip(offset).take(limit).map(|m| m.id.to_hex()[..8].to_string()).collect::<Vec<_>>().join(","))
    }

    pub fn welcome_page(&self, limit: Option<usize>, offset: Option<usize>) -> Option<String> {
        let limit = limit.unwrap_or(1000);
        let offset = offset.unwrap_or(0);
        if !(1..=10_000).contains(&limit) {
            return None;
        }
        let mut v: Vec<&Welcome> = self.welcomes.values().filter(|w| w.state == WelcomeState::Pending).collect();
        v.sort_by(|a, b| b.id.as_bytes().cmp(a.id.as_bytes()));
        Some(v.iter().skip(offset).take(limit).map(|w| w.id.to_hex()[..6].to_string()).collect::<Vec<_>>().join(","))
    }

    pub fn apply(&mut self, u: &Universe, op: &Op) -> Res {
        match op {
            Op::SaveGroup(spec) => {
                let grp = spec.build(u);
                if spec.name == 4 || spec.desc == 4 {
                    return Res::Err; // over both backends' limits
                }
                if let Some(owner) = self.nid_owner(&grp.nostr_group_id)
                    && owner != spec.g
                {
                    return Res::Err;
                }
                self.gs(spec.g).record = Some(grp);
                Res::Ok(String::new())
            }
            Op::ReplaceRelays { g, mask } => {
                if !self.group_exists(*g) {
                    return Res::Err;
                }
                self.gs(*g).relays = u.relay_set(*mask);
                Res::Ok(String::new())
            }
            Op::SaveSecret { g, epoch, v } => {
                if !self.group_exists(*g) {
                    return Res::Err;
                }
                self.gs(*g).secrets.insert(*epoch, secret(u, *g, *epoch, *v));
                Res::Ok(String::new())
            }
            Op::SaveMessage(spec) => {
                if !self.group_exists(spec.g) {
                    return Res::Err;
                }
                self.messages.insert((spec.g, spec.mid), spec.build(u));
                Res::Ok(String::new())
            }
            Op::SaveProcessed(spec) => {
                self.processed.insert(spec.wid, spec.build(u));
                Res::Ok(String::new())
            }
            Op::InvalidateMsgs { g, epoch } => {
                let mut ids = vec![];
                for ((gg, _), m) in self.messages.iter_mut() {
                    if gg == g && m.epoch.is_some_and(|e| e > *epoch) {
                        m.state = MessageState::EpochInvalidated;
                        ids.push(m.id);
                    }
                }
                Res::Ok(sorted_ids(ids))
            }
            Op::InvalidateProcessed { g, epoch } => {
                let gid = u.gid(*g);
                let mut ids = vec![];
                for p in self.processed.values_mut() {
                    if p.mls_group_id.as_ref() == Some(&gid) && p.epoch.is_some_and(|e| e > *epoch) {
                        p.state = ProcessedMessageState::EpochInvalidated;
                        ids.push(p.wrapper_event_id);
                    }
                }
                Res::Ok(sorted_ids(ids))
            }
            Op::MarkRetryable { wid } => match self.processed.get_mut(wid) {
                Some(p) if p.state == ProcessedMessageState::Failed => {
                    p.state = ProcessedMessageState::Retryable;
                    Res::Ok(String::new())
                }
                _ => Res::NotFound,
            },
            Op::SaveWelcome(spec) => {
                self.welcomes.insert(spec.w, spec.build(u));
                Res::Ok(String::new())
            }
            Op::SaveProcessedWelcome(spec) => {
                self.proc_welcomes.insert(spec.wwid, spec.build(u));
                Res::Ok(String::new())
            }
            Op::SnapCreate { g, name } => {
                let snap = self.groups.get(g).cloned().unwrap_or_default();
                self.snapshots.insert((*g, *name), snap);
                Res::Ok(String::new())
            }
            Op::SnapRollback { g, name } => match self.snapshots.remove(&(*g, *name)) {
                None => Res::Err,
                Some(s) => {
                    self.groups.insert(*g, s);
                    Res::Ok(String::new())
                }
            },
            Op::SnapRelease { g, name } => {
                self.snapshots.remove(&(*g, *name));
                Res::Ok(String::new())
            }
            Op::SnapList { g } => Res::Ok(self.snapshots.keys().filter(|(gg, _)| gg == g).map(|(_, n)| SNAP_NAMES[*n].to_string()).collect::<Vec<_>>().join(",")),
            Op::Prune { all } => {
                if *all {
                    self.snapshots.clear();
                }
                Res::Ok(String::new())
            }
            Op::GdWrite { g, ty, v } => {
                self.gs(*g).gd.insert(*ty, blob(GD_NAMES[*ty as usize], *v));
                Res::Ok(String::new())
            }
            Op::GdDelete { g, ty } => {
                self.gs(*g).gd.remove(ty);
                Res::Ok(String::new())
            }
            Op::PropQueue { g, r, v } => {
                self.gs(*g).proposals.insert(Blob(vec![b'p', b'r', *r]), blob("prop", *v));
                Res::Ok(String::new())
            }
            Op::PropRemove { g, r } => {
                self.gs(*g).proposals.remove(&Blob(vec![b'p', b'r', *r]));
                Res::Ok(String::new())
            }
            Op::PropClear { g } => {
                self.gs(*g).proposals.clear();
                Res::Ok(String::new())
            }
            Op::LeafAppend { g, v } => {
                self.gs(*g).leaves.push(blob("leaf", *v));
                Res::Ok(String::new())
            }
            Op::LeafDelete { g } => {
                self.gs(*g).leaves.clear();
                Res::Ok(String::new())
            }
            Op::EpkWrite { g, e, leaf, vs } => {
                self.gs(*g).epk.insert((*e, *leaf), vs.iter().map(|v| blob("epk", *v)).collect());
                Res::Ok(String::new())
            }
            Op::EpkDelete { g, e, leaf } => {
                self.gs(*g).epk.remove(&(*e, *leaf));
                Res::Ok(String::new())
            }
            Op::KpWrite { k, v } => {
                self.kp.insert(*k, blob("kpv", *v));
                Res::Ok(String::new())
            }
            Op::KpDelete { k } => {
                self.kp.remove(k);
                Res::Ok(String::new())
            }
            Op::PskWrite { k, v } => {
                self.psk.insert(*k, blob("pskv", *v));
                Res::Ok(String::new())
            }
            Op::PskDelete { k } => {
                self.psk.remove(k);
                Res::Ok(String::new())
            }
            Op::SigWrite { k, v } => {
                self.sig.insert(*k, blob("sigv", *v));
                Res::Ok(String::new())
            }
            Op::SigDelete { k } => {
                self.sig.remove(k);
                Res::Ok(String::new())
            }
            Op::EncWrite { k, v } => {
                self.enc.insert(*k, blob("encv", *v));
                Res::Ok(String::new())
            }
            Op::EncDelete { k } => {
                self.enc.remove(k);
                Res::Ok(String::new())
            }
        }
    }

    pub fn dump(&self, u: &Universe) -> Dump {
        let mut d = Dump::new();
        let ob = |o: Option<&Blob>| o.map(|b| hex::encode(&b.0)).unwrap_or("-".into());
        d.insert("X/all_groups".into(), self.groups.iter().filter(|(_, g)| g.record.is_some()).map(|(i, _)| (u.groups[*i].clone(), *i)).collect::<BTreeMap<_, _>>().values().map(|i| i.to_string()).collect::<Vec<_>>().join(","));
        let empty = GroupScoped::default();
        for g in 0..N_GROUPS {
            let gs = self.groups.get(&g).unwrap_or(&empty);
            let exists = gs.record.is_some();
            d.insert(format!("G{g}/record"), gs.record.as_ref().map(|x| fmt_group(u, x)).unwrap_or("-".into()));
            for n in 0..N_NIDS {
                let owner = self.nid_owner(&u.nids[g][n]);
                d.insert(format!("N{g}/by_nostr/{n}"), owner.and_then(|o| self.groups[&o].record.as_ref()).map(|x| fmt_group(u, x)).unwrap_or("-".into()));
            }
            let err = || "ERR".to_string();
            d.insert(format!("G{g}/admins"), if exists { gs.record.as_ref().unwrap().admin_pubkeys.iter().map(|p| p.to_hex()[..4].to_string()).collect::<Vec<_>>().join("+") } else { err() });
            d.insert(format!("G{g}/relays"), if exists { gs.relays.iter().map(|r| r.to_string()).collect::<Vec<_>>().join(",") } else { err() });
            for ep in 0..N_EPOCH {
                d.insert(format!("G{g}/secret/{ep}"), if exists { gs.secrets.get(&ep).map(|x| hex::encode(&x.secret[..8])).unwrap_or("-".into()) } else { err() });
            }
            for (sn, pf) in [("created", false), ("processed", true)] {
                let v = self.sorted_messages(g, pf);
                d.insert(format!("M{g}/list/{sn}"), if exists { v.iter().map(|m| fmt_msg(m)).collect::<Vec<_>>().join(" ; ") } else { err() });
                d.insert(format!("M{g}/last/{sn}"), if exists { v.first().map(|m| fmt_msg(m)).unwrap_or("-".into()) } else { err() });
            }
            d.insert(format!("M{g}/list/default"), self.page(g, None, None, false).unwrap_or_else(err));
            for m in 0..N_MSG {
                d.insert(format!("M{g}/msg/{m}"), self.messages.get(&(g, m)).map(fmt_msg).unwrap_or("-".into()));
            }
            let mut inv: Vec<&Message> = self.messages.iter().filter(|((gg, _), m)| *gg == g && m.state == MessageState::EpochInvalidated).map(|(_, m)| m).collect();
            inv.sort_by_key(|m| m.id);
            d.insert(format!("M{g}/invalidated"), inv.iter().map(|m| fmt_msg(m)).collect::<Vec<_>>().join(" ; "));
            let gid = u.gid(g);
            let mut pinv: Vec<&ProcessedMessage> = self.processed.values().filter(|p| p.mls_group_id.as_ref() == Some(&gid) && p.state == ProcessedMessageState::EpochInvalidated).collect();
            pinv.sort_by_key(|p| p.wrapper_event_id);
            d.insert(format!("X/proc_invalidated/{g}"), pinv.iter().map(|p| super::ops::apply_fmt_proc(u, p)).collect::<Vec<_>>().join(" ; "));
            let retry: Vec<nostr::EventId> = self.processed.values().filter(|p| p.mls_group_id.as_ref() == Some(&gid) && p.state == ProcessedMessageState::Failed && p.epoch.is_none()).map(|p| p.wrapper_event_id).collect();
            d.insert(format!("X/retry/{g}"), sorted_ids(retry));
            for (ni, needle) in TAG_NEEDLES.iter().enumerate() {
                // any message of the group with an epoch whose tags contain the needle; several
                // different epochs => the contract does not name a unique answer
                let eps: BTreeSet<u64> = self.messages.iter().filter(|((gg, _), m)| *gg == g && m.epoch.is_some() && m.tags.iter().any(|t| t.as_slice().iter().any(|s| s.contains(needle)))).map(|(_, m)| m.epoch.unwrap()).collect();
                let _ = ni;
                let v = match eps.len() {
                    0 => "None".to_string(),
                    1 => format!("Some({})", eps.iter().next().unwrap()),
                    _ => format!("one-of:{}", eps.iter().map(|e| format!("Some({e})")).collect::<Vec<_>>().join("|")),
                };
                d.insert(format!("T{g}/tagq/{needle}"), v);
            }
            d.insert(format!("S{g}/snapshots"), self.snapshots.keys().filter(|(gg, _)| *gg == g).map(|(_, n)| SNAP_NAMES[*n].to_string()).collect::<Vec<_>>().join(","));
            for (ty, name) in GD_NAMES.iter().enumerate() {
                d.insert(format!("G{g}/mls/{name}"), ob(gs.gd.get(&(ty as u8))));
            }
            d.insert(format!("G{g}/mls/proposal_refs"), gs.proposals.keys().map(|b| hex::encode(&b.0)).collect::<Vec<_>>().join(","));
            d.insert(format!("G{g}/mls/proposals"), gs.proposals.iter().map(|(r, p)| format!("{}={}", hex::encode(&r.0), hex::encode(&p.0))).collect::<Vec<_>>().join(","));
            d.insert(format!("G{g}/mls/own_leaf_nodes"), gs.leaves.iter().map(|b| hex::encode(&b.0)).collect::<Vec<_>>().join(","));
            for ek in 0..3u8 {
                for leaf in 0..N_LEAF {
                    d.insert(format!("G{g}/mls/epk/{ek}/{leaf}"), gs.epk.get(&(ek, leaf)).map(|v| v.iter().map(|b| hex::encode(&b.0)).collect::<Vec<_>>().join(",")).unwrap_or_default());
                }
            }
        }
        for w in 0..N_WRAP {
            d.insert(format!("X/proc/{w}"), self.processed.get(&w).map(|p| super::ops::apply_fmt_proc(u, p)).unwrap_or("-".into()));
        }
        for w in 0..N_WELCOME {
            d.insert(format!("X/welcome/{w}"), self.welcomes.get(&w).map(|x| super::ops::apply_fmt_welcome(u, x)).unwrap_or("-".into()));
            d.insert(
                format!("X/proc_welcome/{w}"),
                self.proc_welcomes.get(&w).map(|p| format!("{:?}|{:?}|{:?}", p.welcome_event_id.map(|i| i.to_hex()[..6].to_string()), p.state, p.failure_reason)).unwrap_or("-".into()),
            );
        }
        d.insert("X/pending_welcomes".into(), self.welcome_page(None, None).unwrap());
        for k in 0..N_GLOBAL_KEYS {
            d.insert(format!("X/mls/kp/{k}"), ob(self.kp.get(&k)));
            d.insert(format!("X/mls/psk/{k}"), ob(self.psk.get(&k)));
            d.insert(format!("X/mls/sig/{k}"), ob(self.sig.get(&k)));
            d.insert(format!("X/mls/enc/{k}"), ob(self.enc.get(&k)));
        }
        d
    }
}

/// Compare an actual dump with an expected one; a model value `one-of:a|b` accepts any listed answer.
pub fn diff(expected: &Dump, actual: &Dump, only: impl Fn(&str) -> bool) -> Vec<(String, String, String)> {
    let mut out = vec![];
    for (k, ev) in expected {
        if !only(k) {
            continue;
        }
        let av = actual.get(k).cloned().unwrap_or_else(|| "<missing>".into());
        let ok = if let Some(alts) = ev.strip_prefix("one-of:") { alts.split('|').any(|a| a == av) } else { *ev == av };
        if !ok {
            out.push((k.clone(), ev.clone(), av));
        }
    }
    out
}
