//! Operation language for storage-level workloads, its generator, and its interpreter over a real
//! backend (`apply`) plus the full observable read-out (`dump`).

use std::collections::BTreeMap;

use mdk_storage_traits::MdkStorageProvider;
use mdk_storage_traits::groups::{MessageSortOrder, Pagination};
use mdk_storage_traits::messages::error::MessageError;
use mdk_storage_traits::welcomes::Pagination as WPagination;
use openmls_traits::storage::{CURRENT_VERSION, Entity, Key, traits};
use serde::{Deserialize, Serialize};

use super::universe::*;
use crate::rng::Rng;

pub type Dump = BTreeMap<String, String>;

#[derive(Clone, Debug, Serialize, Deserialize, PartialEq, Eq, PartialOrd, Ord, Hash)]
pub struct Blob(pub Vec<u8>);
impl Key<CURRENT_VERSION> for Blob {}
impl Entity<CURRENT_VERSION> for Blob {}
impl traits::SignaturePublicKey<CURRENT_VERSION> for Blob {}
impl traits::HashReference<CURRENT_VERSION> for Blob {}
impl traits::PskId<CURRENT_VERSION> for Blob {}
impl traits::EncryptionKey<CURRENT_VERSION> for Blob {}
impl traits::EpochKey<CURRENT_VERSION> for Blob {}
impl traits::QueuedProposal<CURRENT_VERSION> for Blob {}
impl traits::TreeSync<CURRENT_VERSION> for Blob {}
impl traits::GroupContext<CURRENT_VERSION> for Blob {}
impl traits::InterimTranscriptHash<CURRENT_VERSION> for Blob {}
impl traits::ConfirmationTag<CURRENT_VERSION> for Blob {}
impl traits::SignatureKeyPair<CURRENT_VERSION> for Blob {}
impl traits::PskBundle<CURRENT_VERSION> for Blob {}
impl traits::HpkeKeyPair<CURRENT_VERSION> for Blob {}
impl traits::GroupState<CURRENT_VERSION> for Blob {}
impl traits::GroupEpochSecrets<CURRENT_VERSION> for Blob {}
impl traits::LeafNodeIndex<CURRENT_VERSION> for Blob {}
impl traits::MessageSecrets<CURRENT_VERSION> for Blob {}
impl traits::ResumptionPskStore<CURRENT_VERSION> for Blob {}
impl traits::KeyPackage<CURRENT_VERSION> for Blob {}
impl traits::MlsGroupJoinConfig<CURRENT_VERSION> for Blob {}
impl traits::LeafNode<CURRENT_VERSION> for Blob {}
impl traits::ProposalRef<CURRENT_VERSION> for Blob {}

pub fn blob(tag: &str, v: u32) -> Blob {
    let mut b = tag.as_bytes().to_vec();
    b.extend_from_slice(&v.to_le_bytes());
    Blob(b)
}

pub const N_GD_TYPES: u8 = 10;
pub const GD_NAMES: [&str; 10] = ["join_config", "tree", "interim_hash", "context", "conf_tag", "group_state", "msg_secrets", "resumption", "own_leaf_index", "epoch_secrets"];
pub const N_PROP_REFS: u8 = 3;
pub const N_LEAF: u32 = 2;
pub const N_GLOBAL_KEYS: u8 = 3;

#[derive(Clone, Debug, Serialize, Deserialize, PartialEq)]
pub enum Op {
    SaveGroup(GroupSpec),
    ReplaceRelays { g: usize, mask: u8 },
    SaveSecret { g: usize, epoch: u64, v: u32 },
    SaveMessage(MsgSpec),
    SaveProcessed(ProcSpec),
    InvalidateMsgs { g: usize, epoch: u64 },
    InvalidateProcessed { g: usize, epoch: u64 },
    MarkRetryable { wid: usize },
    SaveWelcome(WelcomeSpec),
    SaveProcessedWelcome(ProcWelcomeSpec),
    SnapCreate { g: usize, name: usize },
    SnapRollback { g: usize, name: usize },
    SnapRelease { g: usize, name: usize },
    SnapList { g: usize },
    /// `all`: min_timestamp = u64::MAX/2 (everything is older); otherwise 0 (nothing is older)
    Prune { all: bool },
    // --- OpenMLS StorageProvider ---
    GdWrite { g: usize, ty: u8, v: u32 },
    GdDelete { g: usize, ty: u8 },
    PropQueue { g: usize, r: u8, v: u32 },
    PropRemove { g: usize, r: u8 },
    PropClear { g: usize },
    LeafAppend { g: usize, v: u32 },
    LeafDelete { g: usize },
    EpkWrite { g: usize, e: u8, leaf: u32, vs: Vec<u32> },
    EpkDelete { g: usize, e: u8, leaf: u32 },
    KpWrite { k: u8, v: u32 },
    KpDelete { k: u8 },
    PskWrite { k: u8, v: u32 },
    PskDelete { k: u8 },
    SigWrite { k: u8, v: u32 },
    SigDelete { k: u8 },
    EncWrite { k: u8, v: u32 },
    EncDelete { k: u8 },
}

impl Op {
    pub fn kind(&self) -> &'static str {
        match self {
            Op::SaveGroup(_) => "save_group",
            Op::ReplaceRelays { .. } => "replace_group_relays",
            Op::SaveSecret { .. } => "save_group_exporter_secret",
            Op::SaveMessage(_) => "save_message",
            Op::SaveProcessed(_) => "save_processed_message",
            Op::InvalidateMsgs { .. } => "invalidate_messages_after_epoch",
            Op::InvalidateProcessed { .. } => "invalidate_processed_messages_after_epoch",
            Op::MarkRetryable { .. } => "mark_processed_message_retryable",
            Op::SaveWelcome(_) => "save_welcome",
            Op::SaveProcessedWelcome(_) => "save_processed_welcome",
            Op::SnapCreate { .. } => "create_group_snapshot",
            Op::SnapRollback { .. } => "rollback_group_to_snapshot",
            Op::SnapRelease { .. } => "release_group_snapshot",
            Op::SnapList { .. } => "list_group_snapshots",
            Op::Prune { .. } => "prune_expired_snapshots",
            Op::GdWrite { .. } => "mls_write_group_data",
            Op::GdDelete { .. } => "mls_delete_group_data",
            Op::PropQueue { .. } => "mls_queue_proposal",
            Op::PropRemove { .. } => "mls_remove_proposal",
            Op::PropClear { .. } => "mls_clear_proposal_queue",
            Op::LeafAppend { .. } => "mls_append_own_leaf_node",
            Op::LeafDelete { .. } => "mls_delete_own_leaf_nodes",
            Op::EpkWrite { .. } => "mls_write_epoch_key_pairs",
            Op::EpkDelete { .. } => "mls_delete_epoch_key_pairs",
            Op::KpWrite { .. } => "mls_write_key_package",
            Op::KpDelete { .. } => "mls_delete_key_package",
            Op::PskWrite { .. } => "mls_write_psk",
            Op::PskDelete { .. } => "mls_delete_psk",
            Op::SigWrite { .. } => "mls_write_signature_key_pair",
            Op::SigDelete { .. } => "mls_delete_signature_key_pair",
            Op::EncWrite { .. } => "mls_write_encryption_key_pair",
            Op::EncDelete { .. } => "mls_delete_encryption_key_pair",
        }
    }
    pub fn is_snapshot_op(&self) -> bool {
        matches!(self, Op::SnapCreate { .. } | Op::SnapRollback { .. } | Op::SnapRelease { .. } | Op::SnapList { .. } | Op::Prune { .. })
    }
}

/// Result class of an operation (error wording is never compared).
#[derive(Clone, Debug, PartialEq, Eq, Serialize, Deserialize)]
pub enum Res {
    Ok(String),
    NotFound,
    Err,
}

/// Generator profile.
#[derive(Clone, Copy, Debug)]
pub struct GenCfg {
    pub snapshot_weight: u32,
    pub mls_weight: u32,
    pub message_weight: u32,
    /// allow values outside both backends' limits (must be refused by both)
    pub over_limit: bool,
    /// allow a group to claim another group's nostr id (must be refused by both)
    pub nid_collision: bool,
}

pub struct Gen<'a> {
    pub rng: &'a mut Rng,
    pub cfg: GenCfg,
    counter: u32,
}

impl<'a> Gen<'a> {
    pub fn new(rng: &'a mut Rng, cfg: GenCfg) -> Self {
        Gen { rng, cfg, counter: 0 }
    }
    fn fresh(&mut self) -> u32 {
        self.counter += 1;
        self.counter
    }
    fn g(&mut self) -> usize {
        // skewed: group 0 most often
        let r = self.rng.below(10);
        if r < 5 { 0 } else if r < 8 { 1 } else { 2 }
    }
    fn opt_epoch(&mut self) -> Option<u64> {
        if self.rng.chance(20) { None } else { Some(self.rng.below(N_EPOCH as usize) as u64) }
    }
    pub fn group_spec(&mut self, g: usize) -> GroupSpec {
        let over = self.cfg.over_limit && self.rng.chance(3);
        GroupSpec {
            g,
            nid: self.rng.below(N_NIDS),
            nid_of: if self.cfg.nid_collision && self.rng.chance(4) { Some(self.rng.below(N_GROUPS)) } else { None },
            name: if over { 4 } else { self.rng.below(4) },
            desc: if over && self.rng.chance(50) { 4 } else { self.rng.below(4) },
            admins: self.rng.below(64) as u8,
            epoch: self.rng.below(N_EPOCH as usize) as u64,
            state: self.rng.below(3) as u8,
            img: self.rng.below(8) as u8,
            last: if self.rng.chance(40) { Some((self.rng.below(N_MSG), self.rng.below(3), self.rng.below(3))) } else { None },
            su: self.rng.below(3) as u8,
        }
    }
    pub fn msg_spec(&mut self, g: usize) -> MsgSpec {
        MsgSpec {
            g,
            mid: self.rng.below(N_MSG),
            pk: self.rng.below(PUBKEYS.len()),
            kind: *self.rng.pick(&[1u16, 9, 7, 445]),
            created: self.rng.below(3),
            processed: self.rng.below(3),
            content: self.fresh(),
            tags: self.rng.below(8) as u8,
            wid: self.rng.below(N_WRAP),
            epoch: self.opt_epoch(),
            state: self.rng.below(4) as u8,
        }
    }
    pub fn next(&mut self) -> Op {
        let c = self.cfg;
        let total = 40 + c.snapshot_weight + c.mls_weight + c.message_weight;
        let mut r = self.rng.below(total as usize) as u32;
        if r < 40 {
            // group / relay / secret / welcome ops
            let g = self.g();
            return match r % 10 {
                0..=3 => Op::SaveGroup(self.group_spec(g)),
                4 | 5 => Op::ReplaceRelays { g, mask: self.rng.below(16) as u8 },
                6 | 7 => Op::SaveSecret { g, epoch: self.rng.below(N_EPOCH as usize) as u64, v: self.fresh() },
                8 => Op::SaveWelcome(WelcomeSpec {
                    w: self.rng.below(N_WELCOME),
                    g,
                    nid: self.rng.below(N_NIDS),
                    name: self.rng.below(4),
                    admins: self.rng.below(64) as u8,
                    relays: self.rng.below(16) as u8,
                    welcomer: self.rng.below(6),
                    count: self.fresh(),
                    state: if self.rng.chance(60) { 0 } else { self.rng.below(4) as u8 },
                    wwid: self.rng.below(N_WELCOME),
                    img: self.rng.below(8) as u8,
                }),
                _ => Op::SaveProcessedWelcome(ProcWelcomeSpec {
                    wwid: self.rng.below(N_WELCOME),
                    w: if self.rng.chance(70) { Some(self.rng.below(N_WELCOME)) } else { None },
                    state: self.rng.below(2) as u8,
                    reason: if self.rng.chance(40) { Some(self.fresh()) } else { None },
                }),
            };
        }
        r -= 40;
        if r < c.message_weight {
            let g = self.g();
            return match self.rng.below(10) {
                0..=4 => Op::SaveMessage(self.msg_spec(g)),
                5 | 6 => Op::SaveProcessed(ProcSpec {
                    wid: self.rng.below(N_WRAP),
                    mid: if self.rng.chance(60) { Some(self.rng.below(N_MSG)) } else { None },
                    processed: self.rng.below(3),
                    epoch: self.opt_epoch(),
                    g: if self.rng.chance(85) { Some(g) } else { None },
                    state: self.rng.below(6) as u8,
                    reason: if self.rng.chance(40) { Some(self.fresh()) } else { None },
                }),
                7 => Op::InvalidateMsgs { g, epoch: self.rng.below(N_EPOCH as usize) as u64 },
                8 => Op::InvalidateProcessed { g, epoch: self.rng.below(N_EPOCH as usize) as u64 },
                _ => Op::MarkRetryable { wid: self.rng.below(N_WRAP) },
            };
        }
        r -= c.message_weight;
        if r < c.snapshot_weight {
            let g = self.g();
            let name = self.rng.below(SNAP_NAMES.len());
            return match self.rng.below(12) {
                0..=4 => Op::SnapCreate { g, name },
                5..=8 => Op::SnapRollback { g, name },
                9 => Op::SnapRelease { g, name },
                10 => Op::SnapList { g },
                _ => Op::Prune { all: self.rng.chance(30) },
            };
        }
        // MLS storage ops
        let g = self.g();
        match self.rng.below(20) {
            0..=4 => Op::GdWrite { g, ty: self.rng.below(N_GD_TYPES as usize) as u8, v: self.fresh() },
            5 => Op::GdDelete { g, ty: self.rng.below(N_GD_TYPES as usize) as u8 },
            6 | 7 => Op::PropQueue { g, r: self.rng.below(N_PROP_REFS as usize) as u8, v: self.fresh() },
            8 => Op::PropRemove { g, r: self.rng.below(N_PROP_REFS as usize) as u8 },
            9 => Op::PropClear { g },
            10 | 11 => Op::LeafAppend { g, v: self.fresh() },
            12 => Op::LeafDelete { g },
            13 | 14 => {
                let n = self.rng.below(3);
                let vs = (0..n).map(|_| self.fresh()).collect();
                Op::EpkWrite { g, e: self.rng.below(3) as u8, leaf: self.rng.below(N_LEAF as usize) as u32, vs }
            }
            15 => Op::EpkDelete { g, e: self.rng.below(3) as u8, leaf: self.rng.below(N_LEAF as usize) as u32 },
            16 => {
                let k = self.rng.below(N_GLOBAL_KEYS as usize) as u8;
                if self.rng.chance(75) { Op::KpWrite { k, v: self.fresh() } } else { Op::KpDelete { k } }
            }
            17 => {
                let k = self.rng.below(N_GLOBAL_KEYS as usize) as u8;
                if self.rng.chance(75) { Op::PskWrite { k, v: self.fresh() } } else { Op::PskDelete { k } }
            }
            18 => {
                let k = self.rng.below(N_GLOBAL_KEYS as usize) as u8;
                if self.rng.chance(75) { Op::SigWrite { k, v: self.fresh() } } else { Op::SigDelete { k } }
            }
            _ => {
                let k = self.rng.below(N_GLOBAL_KEYS as usize) as u8;
                if self.rng.chance(75) { Op::EncWrite { k, v: self.fresh() } } else { Op::EncDelete { k } }
            }
        }
    }
}

fn okres<T, E>(r: Result<T, E>, f: impl FnOnce(T) -> String) -> Res {
    match r {
        Ok(v) => Res::Ok(f(v)),
        Err(_) => Res::Err,
    }
}
fn unit<E>(r: Result<(), E>) -> Res {
    okres(r, |_| String::new())
}

pub fn sorted_ids(mut v: Vec<nostr::EventId>) -> String {
    v.sort();
    v.iter().map(|i| i.to_hex()[..8].to_string()).collect::<Vec<_>>().join(",")
}

fn mls_gid(u: &Universe, g: usize) -> openmls::group::GroupId {
    openmls::group::GroupId::from_slice(&u.groups[g])
}
fn epoch_key(e: u8) -> Blob {
    Blob(vec![0xE0, e])
}
fn gkey(tag: &str, k: u8) -> Blob {
    Blob(vec![tag.as_bytes()[0], tag.as_bytes()[1], k])
}

/// Apply one operation to a real backend.
pub fn apply<S: MdkStorageProvider>(s: &S, u: &Universe, op: &Op) -> Res {
    match op {
        Op::SaveGroup(spec) => unit(s.save_group(spec.build(u))),
        Op::ReplaceRelays { g, mask } => unit(s.replace_group_relays(&u.gid(*g), u.relay_set(*mask))),
        Op::SaveSecret { g, epoch, v } => unit(s.save_group_exporter_secret(secret(u, *g, *epoch, *v))),
        Op::SaveMessage(spec) => unit(s.save_message(spec.build(u))),
        Op::SaveProcessed(spec) => unit(s.save_processed_message(spec.build(u))),
        Op::InvalidateMsgs { g, epoch } => okres(s.invalidate_messages_after_epoch(&u.gid(*g), *epoch), sorted_ids),
        Op::InvalidateProcessed { g, epoch } => okres(s.invalidate_processed_messages_after_epoch(&u.gid(*g), *epoch), sorted_ids),
        Op::MarkRetryable { wid } => match s.mark_processed_message_retryable(&u.wid(*wid)) {
            Ok(()) => Res::Ok(String::new()),
            Err(MessageError::NotFound) => Res::NotFound,
            Err(_) => Res::Err,
        },
        Op::SaveWelcome(spec) => unit(s.save_welcome(spec.build(u))),
        Op::SaveProcessedWelcome(spec) => unit(s.save_processed_welcome(spec.build(u))),
        Op::SnapCreate { g, name } => unit(s.create_group_snapshot(&u.gid(*g), SNAP_NAMES[*name])),
        Op::SnapRollback { g, name } => unit(s.rollback_group_to_snapshot(&u.gid(*g), SNAP_NAMES[*name])),
        Op::SnapRelease { g, name } => unit(s.release_group_snapshot(&u.gid(*g), SNAP_NAMES[*name])),
        Op::SnapList { g } => okres(s.list_group_snapshots(&u.gid(*g)), |v| {
            let mut n: Vec<String> = v.into_iter().map(|x| x.0).collect();
            n.sort();
            n.join(",")
        }),
        Op::Prune { all } => okres(s.prune_expired_snapshots(if *all { u64::MAX / 2 } else { 0 }), |_| String::new()),
        Op::GdWrite { g, ty, v } => {
            let gid = mls_gid(u, *g);
            let b = blob(GD_NAMES[*ty as usize], *v);
            unit(match ty {
                0 => s.write_mls_join_config(&gid, &b),
                1 => s.write_tree(&gid, &b),
                2 => s.write_interim_transcript_hash(&gid, &b),
                3 => s.write_context(&gid, &b),
                4 => s.write_confirmation_tag(&gid, &b),
                5 => s.write_group_state(&gid, &b),
                6 => s.write_message_secrets(&gid, &b),
                7 => s.write_resumption_psk_store(&gid, &b),
                8 => s.write_own_leaf_index(&gid, &b),
                _ => s.write_group_epoch_secrets(&gid, &b),
            })
        }
        Op::GdDelete { g, ty } => {
            let gid = mls_gid(u, *g);
            unit(match ty {
                0 => s.delete_group_config(&gid),
                1 => s.delete_tree(&gid),
                2 => s.delete_interim_transcript_hash(&gid),
                3 => s.delete_context(&gid),
                4 => s.delete_confirmation_tag(&gid),
                5 => s.delete_group_state(&gid),
                6 => s.delete_message_secrets(&gid),
                7 => s.delete_all_resumption_psk_secrets(&gid),
                8 => s.delete_own_leaf_index(&gid),
                _ => s.delete_group_epoch_secrets(&gid),
            })
        }
        Op::PropQueue { g, r, v } => unit(s.queue_proposal(&mls_gid(u, *g), &gkey("pr", *r), &blob("prop", *v))),
        Op::PropRemove { g, r } => unit(s.remove_proposal(&mls_gid(u, *g), &gkey("pr", *r))),
        Op::PropClear { g } => unit(s.clear_proposal_queue::<_, Blob>(&mls_gid(u, *g))),
        Op::LeafAppend { g, v } => unit(s.append_own_leaf_node(&mls_gid(u, *g), &blob("leaf", *v))),
        Op::LeafDelete { g } => unit(s.delete_own_leaf_nodes(&mls_gid(u, *g))),
        Op::EpkWrite { g, e, leaf, vs } => {
            let kps: Vec<Blob> = vs.iter().map(|v| blob("epk", *v)).collect();
            unit(s.write_encryption_epoch_key_pairs(&mls_gid(u, *g), &epoch_key(*e), *leaf, &kps))
        }
        Op::EpkDelete { g, e, leaf } => unit(s.delete_encryption_epoch_key_pairs(&mls_gid(u, *g), &epoch_key(*e), *leaf)),
        Op::KpWrite { k, v } => unit(s.write_key_package(&gkey("kp", *k), &blob("kpv", *v))),
        Op::KpDelete { k } => unit(s.delete_key_package(&gkey("kp", *k))),
        Op::PskWrite { k, v } => unit(s.write_psk(&gkey("ps", *k), &blob("pskv", *v))),
        Op::PskDelete { k } => unit(s.delete_psk(&gkey("ps", *k))),
        Op::SigWrite { k, v } => unit(s.write_signature_key_pair(&gkey("sg", *k), &blob("sigv", *v))),
        Op::SigDelete { k } => unit(s.delete_signature_key_pair(&gkey("sg", *k))),
        Op::EncWrite { k, v } => unit(s.write_encryption_key_pair(&gkey("en", *k), &blob("encv", *v))),
        Op::EncDelete { k } => unit(s.delete_encryption_key_pair(&gkey("en", *k))),
    }
}

pub fn fmt_group(u: &Universe, g: &mdk_storage_traits::groups::types::Group) -> String {
    let gi = u.g_index(&g.mls_group_id).map(|i| i.to_string()).unwrap_or_else(|| "?".into());
    format!(
        "g{} nid={} name[{}]={} desc[{}] ih={:?} ik={:?} in={:?} admins={} last=({:?},{:?},{:?}) epoch={} state={:?} su={:?}",
        gi,
        hex::encode(&g.nostr_group_id[..4]),
        g.name.len(),
        crate::util::short(&g.name, 12),
        g.description.len(),
        g.image_hash.map(|h| h[0]),
        g.image_key.as_ref().map(|k| k[0]),
        g.image_nonce.as_ref().map(|k| k[0]),
        g.admin_pubkeys.iter().map(|p| p.to_hex()[..4].to_string()).collect::<Vec<_>>().join("+"),
        g.last_message_id.map(|i| i.to_hex()[..6].to_string()),
        g.last_message_at.map(|t| t.as_secs()),
        g.last_message_processed_at.map(|t| t.as_secs()),
        g.epoch,
        g.state,
        g.self_update_state,
    )
}

pub fn fmt_msg(m: &mdk_storage_traits::messages::types::Message) -> String {
    let mut ev = m.event.clone();
    format!(
        "{}|pk={}|k={}|c={}|p={}|{}|tags={}|ev=({:?},{},{})|w={}|e={:?}|{:?}",
        &m.id.to_hex()[..8],
        &m.pubkey.to_hex()[..4],
        m.kind.as_u16(),
        m.created_at.as_secs(),
        m.processed_at.as_secs(),
        m.content,
        serde_json::to_string(&m.tags).unwrap_or_default(),
        ev.id.map(|i| i.to_hex()[..6].to_string()),
        ev.content,
        { ev.id = None; ev.tags.len() },
        &m.wrapper_event_id.to_hex()[..6],
        m.epoch,
        m.state
    )
}

pub fn apply_fmt_proc(u: &Universe, p: &mdk_storage_traits::messages::types::ProcessedMessage) -> String {
    format!(
        "{}|m={:?}|p={}|e={:?}|g={:?}|{:?}|{:?}",
        &p.wrapper_event_id.to_hex()[..6],
        p.message_event_id.map(|i| i.to_hex()[..6].to_string()),
        p.processed_at.as_secs(),
        p.epoch,
        p.mls_group_id.as_ref().and_then(|g| u.g_index(g)),
        p.state,
        p.failure_reason
    )
}

pub fn apply_fmt_welcome(u: &Universe, w: &mdk_storage_traits::welcomes::types::Welcome) -> String {
    format!(
        "{}|ev={}|g={:?}|nid={}|n={}|d={}|img={:?}{:?}{:?}|a={}|r={}|by={}|cnt={}|{:?}|w={}",
        &w.id.to_hex()[..6],
        w.event.content,
        u.g_index(&w.mls_group_id),
        hex::encode(&w.nostr_group_id[..4]),
        w.group_name.len(),
        w.group_description.len(),
        w.group_image_hash.map(|h| h[0]),
        w.group_image_key.as_ref().map(|k| k[0]),
        w.group_image_nonce.as_ref().map(|k| k[0]),
        w.group_admin_pubkeys.len(),
        w.group_relays.iter().map(|r| r.to_string()).collect::<Vec<_>>().join(","),
        &w.welcomer.to_hex()[..4],
        w.member_count,
        w.state,
        &w.wrapper_event_id.to_hex()[..6],
    )
}

fn e<T, E>(r: Result<T, E>, f: impl FnOnce(T) -> String) -> String {
    match r {
        Ok(v) => f(v),
        Err(_) => "ERR".to_string(),
    }
}
fn ob(o: Option<Blob>) -> String {
    match o {
        None => "-".into(),
        Some(b) => hex::encode(b.0),
    }
}

/// Dump key classes: `G<g>/...` group-scoped state covered by snapshots; `M<g>/...` messages of a
/// group (not covered); `S<g>/...` snapshot listing; `X/...` everything else.
pub fn dump<S: MdkStorageProvider>(s: &S, u: &Universe) -> Dump {
    let mut d = Dump::new();
    d.insert(
        "X/all_groups".into(),
        e(s.all_groups(), |mut v| {
            v.sort_by(|a, b| a.mls_group_id.as_slice().cmp(b.mls_group_id.as_slice()));
            v.iter().map(|g| u.g_index(&g.mls_group_id).map(|i| i.to_string()).unwrap_or("?".into())).collect::<Vec<_>>().join(",")
        }),
    );
    for g in 0..N_GROUPS {
        let gid = u.gid(g);
        let mg = mls_gid(u, g);
        d.insert(format!("G{g}/record"), e(s.find_group_by_mls_group_id(&gid), |o| o.map(|x| fmt_group(u, &x)).unwrap_or("-".into())));
        for n in 0..N_NIDS {
            d.insert(
                format!("N{g}/by_nostr/{n}"),
                e(s.find_group_by_nostr_group_id(&u.nids[g][n]), |o| o.map(|x| fmt_group(u, &x)).unwrap_or("-".into())),
            );
        }
        d.insert(format!("G{g}/admins"), e(s.admins(&gid), |a| a.iter().map(|p| p.to_hex()[..4].to_string()).collect::<Vec<_>>().join("+")));
        d.insert(format!("G{g}/relays"), e(s.group_relays(&gid), |r| r.iter().map(|x| x.relay_url.to_string()).collect::<Vec<_>>().join(",")));
        for ep in 0..N_EPOCH {
            d.insert(format!("G{g}/secret/{ep}"), e(s.get_group_exporter_secret(&gid, ep), |o| o.map(|x| hex::encode(&x.secret[..8])).unwrap_or("-".into())));
        }
        for (sn, so) in [("created", MessageSortOrder::CreatedAtFirst), ("processed", MessageSortOrder::ProcessedAtFirst)] {
            d.insert(
                format!("M{g}/list/{sn}"),
                e(s.messages(&gid, Some(Pagination::with_sort_order(Some(10_000), Some(0), so))), |v| v.iter().map(fmt_msg).collect::<Vec<_>>().join(" ; ")),
            );
            d.insert(format!("M{g}/last/{sn}"), e(s.last_message(&gid, so), |o| o.map(|m| fmt_msg(&m)).unwrap_or("-".into())));
        }
        d.insert(format!("M{g}/list/default"), e(s.messages(&gid, None), |v| v.iter().map(|m| m.id.to_hex()[..8].to_string()).collect::<Vec<_>>().join(",")));
        for m in 0..N_MSG {
            d.insert(format!("M{g}/msg/{m}"), e(s.find_message_by_event_id(&gid, &u.mid(m)), |o| o.map(|x| fmt_msg(&x)).unwrap_or("-".into())));
        }
        d.insert(
            format!("M{g}/invalidated"),
            e(s.find_invalidated_messages(&gid), |mut v| {
                v.sort_by_key(|m| m.id);
                v.iter().map(fmt_msg).collect::<Vec<_>>().join(" ; ")
            }),
        );
        d.insert(
            format!("X/proc_invalidated/{g}"),
            e(s.find_invalidated_processed_messages(&gid), |mut v| {
                v.sort_by_key(|m| m.wrapper_event_id);
                v.iter().map(|p| apply_fmt_proc(u, p)).collect::<Vec<_>>().join(" ; ")
            }),
        );
        d.insert(format!("X/retry/{g}"), e(s.find_failed_messages_for_retry(&gid), sorted_ids));
        for needle in TAG_NEEDLES {
            d.insert(format!("T{g}/tagq/{needle}"), e(s.find_message_epoch_by_tag_content(&gid, needle), |o| format!("{o:?}")));
        }
        d.insert(
            format!("S{g}/snapshots"),
            e(s.list_group_snapshots(&gid), |v| {
                let mut n: Vec<String> = v.into_iter().map(|x| x.0).collect();
                n.sort();
                n.join(",")
            }),
        );
        // MLS group-scoped
        d.insert(format!("G{g}/mls/join_config"), e(s.mls_group_join_config::<_, Blob>(&mg), ob));
        d.insert(format!("G{g}/mls/tree"), e(s.tree::<_, Blob>(&mg), ob));
        d.insert(format!("G{g}/mls/interim_hash"), e(s.interim_transcript_hash::<_, Blob>(&mg), ob));
        d.insert(format!("G{g}/mls/context"), e(s.group_context::<_, Blob>(&mg), ob));
        d.insert(format!("G{g}/mls/conf_tag"), e(s.confirmation_tag::<_, Blob>(&mg), ob));
        d.insert(format!("G{g}/mls/group_state"), e(s.group_state::<Blob, _>(&mg), ob));
        d.insert(format!("G{g}/mls/msg_secrets"), e(s.message_secrets::<_, Blob>(&mg), ob));
        d.insert(format!("G{g}/mls/resumption"), e(s.resumption_psk_store::<_, Blob>(&mg), ob));
        d.insert(format!("G{g}/mls/own_leaf_index"), e(s.own_leaf_index::<_, Blob>(&mg), ob));
        d.insert(format!("G{g}/mls/epoch_secrets"), e(s.group_epoch_secrets::<_, Blob>(&mg), ob));
        d.insert(
            format!("G{g}/mls/proposal_refs"),
            e(s.queued_proposal_refs::<_, Blob>(&mg), |mut v| {
                v.sort();
                v.iter().map(|b| hex::encode(&b.0)).collect::<Vec<_>>().join(",")
            }),
        );
        d.insert(
            format!("G{g}/mls/proposals"),
            e(s.queued_proposals::<_, Blob, Blob>(&mg), |mut v| {
                v.sort();
                v.iter().map(|(r, p)| format!("{}={}", hex::encode(&r.0), hex::encode(&p.0))).collect::<Vec<_>>().join(",")
            }),
        );
        d.insert(format!("G{g}/mls/own_leaf_nodes"), e(s.own_leaf_nodes::<_, Blob>(&mg), |v| v.iter().map(|b| hex::encode(&b.0)).collect::<Vec<_>>().join(",")));
        for ek in 0..3u8 {
            for leaf in 0..N_LEAF {
                d.insert(
                    format!("G{g}/mls/epk/{ek}/{leaf}"),
                    e(s.encryption_epoch_key_pairs::<_, _, Blob>(&mg, &epoch_key(ek), leaf), |v| v.iter().map(|b| hex::encode(&b.0)).collect::<Vec<_>>().join(",")),
                );
            }
        }
    }
    for w in 0..N_WRAP {
        d.insert(format!("X/proc/{w}"), e(s.find_processed_message_by_event_id(&u.wid(w)), |o| o.map(|p| apply_fmt_proc(u, &p)).unwrap_or("-".into())));
    }
    for w in 0..N_WELCOME {
        d.insert(format!("X/welcome/{w}"), e(s.find_welcome_by_event_id(&u.welcome_id(w)), |o| o.map(|x| apply_fmt_welcome(u, &x)).unwrap_or("-".into())));
        d.insert(
            format!("X/proc_welcome/{w}"),
            e(s.find_processed_welcome_by_event_id(&u.welcome_wid(w)), |o| {
                o.map(|p| format!("{:?}|{:?}|{:?}", p.welcome_event_id.map(|i| i.to_hex()[..6].to_string()), p.state, p.failure_reason)).unwrap_or("-".into())
            }),
        );
    }
    d.insert("X/pending_welcomes".into(), e(s.pending_welcomes(None), |v| v.iter().map(|w| w.id.to_hex()[..6].to_string()).collect::<Vec<_>>().join(",")));
    for k in 0..N_GLOBAL_KEYS {
        d.insert(format!("X/mls/kp/{k}"), e(s.key_package::<_, Blob>(&gkey("kp", k)), ob));
        d.insert(format!("X/mls/psk/{k}"), e(s.psk::<Blob, _>(&gkey("ps", k)), ob));
        d.insert(format!("X/mls/sig/{k}"), e(s.signature_key_pair::<_, Blob>(&gkey("sg", k)), ob));
        d.insert(format!("X/mls/enc/{k}"), e(s.encryption_key_pair::<Blob, _>(&gkey("en", k)), ob));
    }
    d
}

/// Pagination probes (C10/C18): every (limit, offset, sort) triple of the probe set.
pub const PAGE_LIMITS: [usize; 7] = [0, 1, 2, 3, 10_000, 10_001, usize::MAX];
pub const PAGE_OFFSETS: [usize; 5] = [0, 1, 2, 5, 1_000_000];

pub fn page_probe<S: MdkStorageProvider>(s: &S, u: &Universe, g: usize, limit: Option<usize>, offset: Option<usize>, sort: Option<MessageSortOrder>) -> String {
    let p = Pagination { limit, offset, sort_order: sort };
    e(s.messages(&u.gid(g), Some(p)), |v| v.iter().map(|m| m.id.to_hex()[..8].to_string()).collect::<Vec<_>>().join(","))
}

pub fn welcome_page_probe<S: MdkStorageProvider>(s: &S, limit: Option<usize>, offset: Option<usize>) -> String {
    e(s.pending_welcomes(Some(WPagination::new(limit, offset))), |v| v.iter().map(|w| w.id.to_hex()[..6].to_string()).collect::<Vec<_>>().join(","))
}
