//! Bounded-progress monitor for the thread stress ("nothing deadlocks").
//!
//! A deadlocked worker never returns, so the process that runs the stress cannot report on it from
//! the inside of the workload. A monitor thread samples `/proc/self/task/*/stat` twice a second
//! while a stress section is active: if EVERY other thread of the process is blocked (state `S`)
//! and none has consumed a single clock tick of CPU for `quiet` seconds, no operation can be in
//! progress - the workers are waiting for each other. The verdict rests on thread states and CPU
//! accounting, not on how long something took: on a loaded machine starved workers are runnable
//! (`R`), which resets the count; a wall-clock limit alone (the parent's watchdog) stays
//! `inconclusive`. Not built under Miri (no /proc; Miri reports deadlocks itself).

use std::sync::Mutex;
use std::sync::atomic::{AtomicU64, Ordering};
use std::time::Duration;

static ACTIVE: AtomicU64 = AtomicU64::new(0);
static LABEL: Mutex<String> = Mutex::new(String::new());

/// RAII marker: a multi-threaded stress section is running.
pub struct Section;

pub fn section(label: &str) -> Section {
    if let Ok(mut l) = LABEL.lock() {
        *l = label.to_string();
    }
    ACTIVE.fetch_add(1, Ordering::SeqCst);
    Section
}

impl Drop for Section {
    fn drop(&mut self) {
        ACTIVE.fetch_sub(1, Ordering::SeqCst);
    }
}

#[cfg(not(miri))]
fn sample(own_tid: &str) -> Option<(u64, usize, usize)> {
    // (cpu ticks of all other threads, threads not in state S, number of other threads)
    let mut ticks = 0u64;
    let mut not_sleeping = 0usize;
    let mut n = 0usize;
    for e in std::fs::read_dir("/proc/self/task").ok()?.flatten() {
        let tid = e.file_name().to_string_lossy().to_string();
        if tid == own_tid {
            continue;
        }
        let Ok(stat) = std::fs::read_to_string(e.path().join("stat")) else { continue };
        let Some(rest) = stat.rfind(')').map(|p| &stat[p + 1..]) else { continue };
        let f: Vec<&str> = rest.split_whitespace().collect();
        if f.len() < 13 {
            continue;
        }
        n += 1;
        if f[0] != "S" {
            not_sleeping += 1;
        }
        ticks += f[11].parse::<u64>().unwrap_or(0) + f[12].parse::<u64>().unwrap_or(0);
    }
    Some((ticks, not_sleeping, n))
}

/// Starts the monitor; `on_stall(detail)` is called once (it is expected to report and to end the
/// process - the blocked workers cannot be unwound).
#[cfg(not(miri))]
pub fn spawn_monitor(quiet: Duration, on_stall: impl Fn(String, String) + Send + 'static) {
    std::thread::spawn(move || {
        let own_tid = std::fs::read_to_string("/proc/thread-self/stat").ok().and_then(|s| s.split_whitespace().next().map(|x| x.to_string())).unwrap_or_default();
        let step = Duration::from_millis(500);
        let mut last_ticks = u64::MAX;
        let mut quiet_for = Duration::ZERO;
        loop {
            std::thread::sleep(step);
            if ACTIVE.load(Ordering::SeqCst) == 0 {
                quiet_for = Duration::ZERO;
                last_ticks = u64::MAX;
                continue;
            }
            let Some((ticks, not_sleeping, n)) = sample(&own_tid) else {
                quiet_for = Duration::ZERO;
                continue;
            };
            if not_sleeping == 0 && ticks == last_ticks && n > 1 {
                quiet_for += step;
            } else {
                quiet_for = Duration::ZERO;
            }
            last_ticks = ticks;
            if quiet_for >= quiet {
                let label = LABEL.lock().map(|l| l.clone()).unwrap_or_default();
                on_stall(label.clone(), format!("all {n} other threads of the process have been blocked (state S) without consuming a clock tick of CPU for {} s inside `{label}`: the workers wait for each other", quiet_for.as_secs()));
                return;
            }
        }
    });
}
