//! Multi-threaded storage stress with client-boundary history recording and per-key checks.
//! Generic over the backend; free of secp256k1 / SQLite calls so that it also runs under Miri.

use std::collections::{BTreeMap, BTreeSet};
use std::sync::atomic::{AtomicBool, AtomicU64, Ordering};

use mdk_storage_traits::MdkStorageProvider;
use mdk_storage_traits::groups::types::GroupState;
use nostr::RelayUrl;

use super::universe::*;
use crate::rng::Rng;

/// One recorded client call. Stamps come from one global atomic counter (monotonic, total).
#[derive(Clone, Debug)]
pub struct Rec {
    pub thread: usize,
    pub key: String,
    pub call: u64,
    pub ret: u64,
    /// Some(tag) for a write of the uniquely tagged value, None for a read
    pub wrote: Option<u64>,
    /// what a read observed: a tag, 0 = initial / nothing, u64::MAX = error
    pub read: Option<u64>,
    pub ok: bool,
}

pub struct StressCfg {
    pub threads: usize,
    pub ops_per_thread: usize,
    pub yield_pct: u32,
    pub groups: usize,
}

#[derive(Default, Debug)]
pub struct StressReport {
    pub histories_ops: u64,
    pub reads: u64,
    pub writes: u64,
    pub keys: BTreeSet<String>,
    pub violations: Vec<(String, String)>,
    pub panics: Vec<String>,
    pub snapshots_checked: u64,
    pub overlapping_pairs: u64,
}

fn tag(thread: usize, ctr: u64) -> u64 {
    ((thread as u64 + 1) << 32) | ctr
}

fn name_of(t: u64) -> String {
    format!("v{t:x}")
}
fn parse_name(s: &str) -> u64 {
    s.strip_prefix('v').and_then(|h| u64::from_str_radix(h, 16).ok()).unwrap_or(0)
}

fn relay_set(t: u64) -> BTreeSet<RelayUrl> {
    (0..3).map(|k| RelayUrl::parse(&format!("wss://r{k}.example.com/{t:x}")).unwrap()).collect()
}

/// tags of a relay listing: one tag = consistent set; several = half-applied replace
fn relay_tags(set: &BTreeSet<mdk_storage_traits::groups::types::GroupRelay>) -> BTreeSet<u64> {
    set.iter().filter_map(|r| r.relay_url.to_string().trim_end_matches('/').rsplit('/').next().and_then(|h| u64::from_str_radix(h, 16).ok())).collect()
}

pub fn run_stress<S: MdkStorageProvider + Sync>(s: &S, u: &Universe, cfg: &StressCfg, seed: u64) -> StressReport {
    let clock = AtomicU64::new(1);
    let stop = AtomicBool::new(false);
    let mut report = StressReport::default();
    // initial state: every group exists (tag 0)
    for g in 0..cfg.groups {
        let spec = GroupSpec { g, nid: 0, nid_of: None, name: 0, desc: 0, admins: 1, epoch: 0, state: 0, img: 0, last: None, su: 1 };
        let mut grp = spec.build(u);
        grp.name = name_of(0);
        s.save_group(grp).expect("init group");
    }
    let all: Vec<Vec<Rec>> = std::thread::scope(|sc| {
        let hs: Vec<_> = (0..cfg.threads)
            .map(|t| {
                let clock = &clock;
                let stop = &stop;
                sc.spawn(move || {
                    let mut rng = Rng::new(seed ^ ((t as u64 + 1) * 0x9E37));
                    let mut recs: Vec<Rec> = Vec::with_capacity(cfg.ops_per_thread);
                    let mut ctr = 0u64;
                    for _ in 0..cfg.ops_per_thread {
                        if stop.load(Ordering::Relaxed) {
                            break;
                        }
                        if rng.chance(cfg.yield_pct) {
                            std::thread::yield_now();
                        }
                        // the last group is private to thread 0 (isolation probe): others never write it
                        let g = if cfg.groups > 1 && t == 0 && rng.chance(50) { cfg.groups - 1 } else { rng.below(cfg.groups.saturating_sub(1).max(1)) };
                        let gid = u.gid(g);
                        let op = rng.below(10);
                        ctr += 1;
                        let v = tag(t, ctr);
                        let call = clock.fetch_add(1, Ordering::SeqCst);
                        let (key, wrote, read, ok): (String, Option<u64>, Option<u64>, bool) = match op {
                            0 | 1 => {
                                let spec = GroupSpec { g, nid: 0, nid_of: None, name: 0, desc: 0, admins: 1, epoch: 0, state: 0, img: 0, last: None, su: 1 };
                                let mut grp = spec.build(u);
                                grp.name = name_of(v);
                                grp.state = GroupState::Active;
                                let r = s.save_group(grp);
                                (format!("group/{g}"), Some(v), None, r.is_ok())
                            }
                            2 => match s.find_group_by_mls_group_id(&gid) {
                                Ok(Some(x)) => (format!("group/{g}"), None, Some(parse_name(&x.name)), true),
                                Ok(None) => (format!("group/{g}"), None, Some(u64::MAX - 1), true),
                                Err(_) => (format!("group/{g}"), None, Some(u64::MAX), false),
                            },
                            3 => match s.find_group_by_nostr_group_id(&u.nids[g][0]) {
                                Ok(Some(x)) => (format!("group/{g}"), None, Some(parse_name(&x.name)), true),
                                Ok(None) => (format!("group/{g}"), None, Some(u64::MAX - 1), true),
                                Err(_) => (format!("group/{g}"), None, Some(u64::MAX), false),
                            },
                            4 => {
                                let ep = rng.below(2) as u64;
                                let mut sec = secret(u, g, ep, 0);
                                let mut b = [0u8; 32];
                                b[..8].copy_from_slice(&v.to_le_bytes());
                                sec.secret = mdk_storage_traits::Secret::new(b);
                                let r = s.save_group_exporter_secret(sec);
                                (format!("secret/{g}/{ep}"), Some(v), None, r.is_ok())
                            }
                            5 => {
                                let ep = rng.below(2) as u64;
                                match s.get_group_exporter_secret(&gid, ep) {
                                    Ok(Some(x)) => (format!("secret/{g}/{ep}"), None, Some(u64::from_le_bytes(x.secret[..8].try_into().unwrap())), true),
                                    Ok(None) => (format!("secret/{g}/{ep}"), None, Some(0), true),
                                    Err(_) => (format!("secret/{g}/{ep}"), None, Some(u64::MAX), false),
                                }
                            }
                            6 => {
                                let r = s.replace_group_relays(&gid, relay_set(v));
                                (format!("relays/{g}"), Some(v), None, r.is_ok())
                            }
                            7 => match s.group_relays(&gid) {
                                Ok(set) => {
                                    let tags = relay_tags(&set);
                                    let obs = if set.is_empty() {
                                        0
                                    } else if tags.len() == 1 && set.len() == 3 {
                                        *tags.iter().next().unwrap()
                                    } else {
                                        u64::MAX - 2 // half-applied
                                    };
                                    (format!("relays/{g}"), None, Some(obs), true)
                                }
                                Err(_) => (format!("relays/{g}"), None, Some(u64::MAX), false),
                            },
                            8 => {
                                let w = rng.below(2);
                                let spec = ProcSpec { wid: w, mid: None, processed: 0, epoch: Some(1), g: Some(g), state: 1, reason: None };
                                let mut pm = spec.build(u);
                                pm.failure_reason = Some(name_of(v));
                                let r = s.save_processed_message(pm);
                                (format!("processed/{w}"), Some(v), None, r.is_ok())
                            }
                            _ => {
                                let w = rng.below(2);
                                match s.find_processed_message_by_event_id(&u.wid(w)) {
                                    Ok(Some(x)) => (format!("processed/{w}"), None, Some(x.failure_reason.as_deref().map(parse_name).unwrap_or(0)), true),
                                    Ok(None) => (format!("processed/{w}"), None, Some(0), true),
                                    Err(_) => (format!("processed/{w}"), None, Some(u64::MAX), false),
                                }
                            }
                        };
                        let ret = clock.fetch_add(1, Ordering::SeqCst);
                        recs.push(Rec { thread: t, key, call, ret, wrote, read, ok });
                    }
                    recs
                })
            })
            .collect();
        hs.into_iter()
            .map(|h| match h.join() {
                Ok(r) => r,
                Err(p) => {
                    let msg = p.downcast_ref::<&str>().map(|s| s.to_string()).or_else(|| p.downcast_ref::<String>().cloned()).unwrap_or_else(|| "panic".into());
                    vec![Rec { thread: usize::MAX, key: format!("PANIC:{msg}"), call: 0, ret: 0, wrote: None, read: None, ok: false }]
                }
            })
            .collect()
    });
    let mut by_key: BTreeMap<String, Vec<Rec>> = BTreeMap::new();
    for recs in all {
        for r in recs {
            if r.thread == usize::MAX {
                report.panics.push(r.key.clone());
                continue;
            }
            report.histories_ops += 1;
            if r.wrote.is_some() {
                report.writes += 1;
            } else {
                report.reads += 1;
            }
            if !r.ok {
                report.violations.push(("operation-failed".into(), format!("{} by thread {} returned an error", r.key, r.thread)));
            }
            by_key.entry(r.key.clone()).or_default().push(r);
        }
    }
    for (key, recs) in &by_key {
        report.keys.insert(key.split('/').next().unwrap_or("").to_string());
        check_register(key, recs, cfg, &mut report);
    }
    report
}

/// Necessary conditions for linearizability of a register with uniquely tagged writes.
fn check_register(key: &str, recs: &[Rec], cfg: &StressCfg, rep: &mut StressReport) {
    let writes: BTreeMap<u64, &Rec> = recs.iter().filter_map(|r| r.wrote.map(|v| (v, r))).collect();
    let reads: Vec<&Rec> = recs.iter().filter(|r| r.wrote.is_none()).collect();
    // isolation: the private group is written by thread 0 only
    if cfg.groups > 1 && key.ends_with(&format!("/{}", cfg.groups - 1)) && key.starts_with("group/") {
        for r in &reads {
            if let Some(v) = r.read
                && v != 0
                && v < u64::MAX - 3
                && (v >> 32) != 1
            {
                rep.violations.push(("isolation".into(), format!("{key}: read saw tag {v:x} of a thread that never writes this group")));
            }
        }
    }
    for r in &reads {
        let Some(v) = r.read else { continue };
        if v == u64::MAX {
            continue;
        }
        if v == u64::MAX - 2 {
            rep.violations.push(("half-applied-replace".into(), format!("{key}: a listing showed a mixture of two replace calls (thread {} at stamp {})", r.thread, r.call)));
            continue;
        }
        if v == u64::MAX - 1 {
            rep.violations.push(("record-vanished".into(), format!("{key}: lookup returned nothing although the key always exists")));
            continue;
        }
        if v == 0 {
            // initial value: no write may have completed before the read started
            if let Some(w) = writes.values().find(|w| w.ok && w.ret < r.call) {
                rep.violations.push(("stale-read".into(), format!("{key}: read (stamps {}..{}) returned the initial value although write {:x} had completed at {}", r.call, r.ret, w.wrote.unwrap(), w.ret)));
            }
            continue;
        }
        let Some(w) = writes.get(&v) else {
            rep.violations.push(("torn-or-phantom-value".into(), format!("{key}: read returned {v:x}, which no thread wrote")));
            continue;
        };
        if w.call > r.ret {
            rep.violations.push(("read-from-the-future".into(), format!("{key}: read {}..{} returned {v:x} whose write started at {}", r.call, r.ret, w.call)));
        }
        // overwritten before the read began?
        if let Some(w2) = writes.values().find(|w2| w2.ok && w2.call > w.ret && w2.ret < r.call) {
            rep.violations.push(("lost-update-or-stale-read".into(), format!("{key}: read {}..{} returned {v:x} (written {}..{}) although {:x} was written entirely in between ({}..{})", r.call, r.ret, w.call, w.ret, w2.wrote.unwrap(), w2.call, w2.ret)));
        }
        if w.ret > r.call {
            rep.overlapping_pairs += 1;
        }
    }
    // two sequential reads never go backwards
    let mut sorted: Vec<&&Rec> = reads.iter().collect();
    sorted.sort_by_key(|r| r.call);
    for i in 0..sorted.len() {
        for j in i + 1..sorted.len().min(i + 12) {
            let (r1, r2) = (sorted[i], sorted[j]);
            if r1.ret < r2.call
                && let (Some(v1), Some(v2)) = (r1.read, r2.read)
                && v1 != v2
                && let (Some(w1), Some(w2)) = (writes.get(&v1), writes.get(&v2))
                && w2.ret < w1.call
            {
                rep.violations.push(("non-monotonic-reads".into(), format!("{key}: a later read returned {v2:x}, written entirely before {v1:x} which an earlier read had already returned")));
            }
        }
    }
}

/// Snapshot-cut workload: one writer bumps epoch -> secret -> relays to version v, v+1, ...;
/// snapshotters run concurrently; every snapshot, restored later, must be a consistent cut.
pub fn run_snapshot_cut<S: MdkStorageProvider + Sync>(s: &S, u: &Universe, versions: u64, snapshotters: usize, seed: u64) -> StressReport {
    let mut report = StressReport::default();
    let g = 0usize;
    let gid = u.gid(g);
    let mk_group = |v: u64| {
        let spec = GroupSpec { g, nid: 0, nid_of: None, name: 0, desc: 0, admins: 1, epoch: v, state: 0, img: 0, last: None, su: 1 };
        spec.build(u)
    };
    s.save_group(mk_group(0)).expect("init");
    let mut sec0 = secret(u, g, 0, 0);
    sec0.secret = mdk_storage_traits::Secret::new([0u8; 32]);
    s.save_group_exporter_secret(sec0).expect("init secret");
    s.replace_group_relays(&gid, relay_set(0)).expect("init relays");
    let done = AtomicBool::new(false);
    let taken: Vec<Vec<String>> = std::thread::scope(|sc| {
        let done = &done;
        let writer = sc.spawn(move || {
            for v in 1..=versions {
                s.save_group(mk_group(v)).unwrap();
                let mut sec = secret(u, g, 0, 0);
                let mut b = [0u8; 32];
                b[..8].copy_from_slice(&v.to_le_bytes());
                sec.secret = mdk_storage_traits::Secret::new(b);
                s.save_group_exporter_secret(sec).unwrap();
                s.replace_group_relays(&u.gid(g), relay_set(v)).unwrap();
                if v % 3 == 0 {
                    std::thread::yield_now();
                }
            }
            done.store(true, Ordering::SeqCst);
        });
        let hs: Vec<_> = (0..snapshotters)
            .map(|t| {
                sc.spawn(move || {
                    let mut rng = Rng::new(seed ^ (t as u64 + 77));
                    let mut names = vec![];
                    let mut k = 0;
                    while (k < 2 || !done.load(Ordering::SeqCst)) && k < 40 {
                        let name = format!("cut-{t}-{k}");
                        if s.create_group_snapshot(&u.gid(g), &name).is_ok() {
                            names.push(name);
                        }
                        k += 1;
                        if rng.chance(50) {
                            std::thread::yield_now();
                        }
                    }
                    names
                })
            })
            .collect();
        let _ = writer.join();
        hs.into_iter().map(|h| h.join().unwrap_or_default()).collect()
    });
    // quiescent: restore every snapshot and read the three versions
    for name in taken.into_iter().flatten() {
        if s.rollback_group_to_snapshot(&gid, &name).is_err() {
            report.violations.push(("snapshot-lost".into(), format!("snapshot {name} taken under load cannot be restored")));
            continue;
        }
        report.snapshots_checked += 1;
        let ve = s.find_group_by_mls_group_id(&gid).ok().flatten().map(|x| x.epoch);
        let vs = s.get_group_exporter_secret(&gid, 0).ok().flatten().map(|x| u64::from_le_bytes(x.secret[..8].try_into().unwrap()));
        let vr = s.group_relays(&gid).ok().map(|set| relay_tags(&set));
        let (Some(ve), Some(vs), Some(vr)) = (ve, vs, vr) else {
            report.violations.push(("snapshot-incomplete".into(), format!("snapshot {name}: group / secret / relays missing after restore")));
            continue;
        };
        if vr.len() != 1 {
            report.violations.push(("snapshot-with-half-applied-relays".into(), format!("snapshot {name}: relay tags {:?}", vr)));
            continue;
        }
        let vr = *vr.iter().next().unwrap();
        // write order per version: epoch, then secret, then relays
        let consistent = (ve == vs || ve == vs + 1) && (vs == vr || vs == vr + 1) && ve <= vr + 1;
        if !consistent {
            report.violations.push(("snapshot-not-a-consistent-cut".into(), format!("snapshot {name}: epoch v{ve}, secret v{vs}, relays v{vr} never existed at one instant")));
        }
        if ve != vr {
            report.overlapping_pairs += 1; // the cut fell inside a version bump
        }
    }
    report
}
