//! Multi-threaded storage stress with client-boundary history recording and per-key checks.
//! Generic over the backend; free of secp256k1 / SQLite calls so that it also runs under Miri.

use std::collections::{BTreeMap, BTreeSet};
use std::sync::atomic::{AtomicBool, AtomicU64, Ordering};

use mdk_storage_traits::MdkStorageProvider;
use mdk_storage_traits::groups::types::GroupState;
use nostr::RelayUrl;

use super::universe::*;
use crate::rng::Rng;

/// One recorded client call. Stamps come from one global atomic counter (monotonic, total).
#[derive(Clone, Debug)]
pub struct Rec {
    pub thread: usize,
    pub key: String,
    pub call: u64,
    pub ret: u64,
    /// Some(tag) for a write of the uniquely tagged value, None for a read
    pub wrote: Option<u64>,
    /// what a read observed: a tag, 0 = initial / nothing, u64::MAX = error
    pub read: Option<u64>,
    pub ok: bool,
}

pub struct StressCfg {
    pub threads: usize,
    pub ops_per_thread: usize,
    pub yield_pct: u32,
    pub groups: usize,
}

#[derive(Default, Debug)]
pub struct StressReport {
    pub histories_ops: u64,
    pub reads: u64,
    pub writes: u64,
    pub keys: BTreeSet<String>,
    pub violations: Vec<(String, String)>,
    pub panics: Vec<String>,
    pub snapshots_checked: u64,
    pub overlapping_pairs: u64,
}

fn tag(thread: usize, ctr: u64) -> u64 {
    ((thread as u64 + 1) << 32) | ctr
}

fn name_of(t: u64) -> String {
    format!("v{t:x}")
}
fn parse_name(s: &str) -> u64 {
    s.strip_prefix('v').and_then(|h| u64::from_str_radix(h, 16).ok()).unwrap_or(0)
}

fn relay_set(t: u64) -> BTreeSet<RelayUrl> {
    (0..3).map(|k| RelayUrl::parse(&format!("wss://r{k}.example.com/{t:x}")).unwrap()).collect()
}

/// tags of a relay listing: one tag = consistent set; several = half-applied replace
fn relay_tags(set: &BTreeSet<mdk_storage_traits::groups::types::GroupRelay>) -> BTreeSet<u64> {
    set.iter().filter_map(|r| r.relay_url.to_string().trim_end_matches('/').rsplit('/').next().and_then(|h| u64::from_str_radix(h, 16).ok())).collect()
}

pub fn run_stress<S: MdkStorageProvider + Sync>(s: &S, u: &Universe, cfg: &StressCfg, seed: u64) -> StressReport {
    let clock = AtomicU64::new(1);
    let stop = AtomicBool::new(false);
    let mut report = StressReport::default();
    // initial state: every group exists (tag 0)
    for g in 0..cfg.groups {
        let spec = GroupSpec { g, nid: 0, nid_of: None, name: 0, desc: 0, admins: 1, epoch: 0, state: 0, img: 0, last: None, su: 1 };
        let mut grp = spec.build(u);
        grp.name = name_of(0);
        s.save_group(grp).expect("init group");
    }
    let _section = super::stall::section("mixed reads and writes (run_stress)");
    let all: Vec<Vec<Rec>> = std::thread::scope(|sc| {
        let hs: Vec<_> = (0..cfg.threads)
            .map(|t| {
                let clock = &clock;
                let stop = &stop;
                sc.spawn(move || {
                    let mut rng = Rng::new(seed ^ ((t as u64 + 1) * 0x9E37));
                    let mut recs: Vec<Rec> = Vec::with_capacity(cfg.ops_per_thread);
                    let mut ctr = 0u64;
                    for _ in 0..cfg.ops_per_thread {
                        if stop.load(Ordering::Relaxed) {
                            break;
                        }
                        if rng.chance(cfg.yield_pct) {
                            std::thread::yield_now();
                        }
                        // the last group is private to thread 0 (isolation probe): others never write it
                        let g = if cfg.groups > 1 && t == 0 && rng.chance(50) { cfg.groups - 1 } else { rng.below(cfg.groups.saturating_sub(1).max(1)) };
                        let gid = u.gid(g);
                        let op = rng.below(10);
                        ctr += 1;
                        let v = tag(t, ctr);
                        let call = clock.fetch_add(1, Ordering::SeqCst);
                        let (key, wrote, read, ok): (String, Option<u64>, Option<u64>, bool) = match op {
                            0 | 1 => {
                                let spec = GroupSpec { g, nid: 0, nid_of: None, name: 0, desc: 0, admins: 1, epoch: 0, state: 0, img: 0, last: None, su: 1 };
                                let mut grp = spec.build(u);
                                grp.name = name_of(v);
                                grp.state = GroupState::Active;
                                let r = s.save_group(grp);
                                (format!("group/{g}"), Some(v), None, r.is_ok())
                            }
                            2 => match s.find_group_by_mls_group_id(&gid) {
                                Ok(Some(x)) => (format!("group/{g}"), None, Some(parse_name(&x.name)), true),
                                Ok(None) => (format!("group/{g}"), None, Some(u64::MAX - 1), true),
                                Err(_) => (format!("group/{g}"), None, Some(u64::MAX), false),
                            },
                            3 => match s.find_group_by_nostr_group_id(&u.nids[g][0]) {
                                Ok(Some(x)) => (format!("group/{g}"), None, Some(parse_name(&x.name)), true),
                                Ok(None) => (format!("group/{g}"), None, Some(u64::MAX - 1), true),
                                Err(_) => (format!("group/{g}"), None, Some(u64::MAX), false),
                            },
                            4 => {
                                let ep = rng.below(2) as u64;
                                let mut sec = secret(u, g, ep, 0);
                                let mut b = [0u8; 32];
                                b[..8].copy_from_slice(&v.to_le_bytes());
                                sec.secret = mdk_storage_traits::Secret::new(b);
                                let r = s.save_group_exporter_secret(sec);
                                (format!("secret/{g}/{ep}"), Some(v), None, r.is_ok())
                            }
                            5 => {
                                let ep = rng.below(2) as u64;
                                match s.get_group_exporter_secret(&gid, ep) {
                                    Ok(Some(x)) => (format!("secret/{g}/{ep}"), None, Some(u64::from_le_bytes(x.secret[..8].try_into().unwrap())), true),
                                    Ok(None) => (format!("secret/{g}/{ep}"), None, Some(0), true),
                                    Err(_) => (format!("secret/{g}/{ep}"), None, Some(u64::MAX), false),
                                }
                            }
                            6 => {
                                let r = s.replace_group_relays(&gid, relay_set(v));
                                (format!("relays/{g}"), Some(v), None, r.is_ok())
                            }
                            7 => match s.group_relays(&gid) {
                                Ok(set) => {
                                    let tags = relay_tags(&set);
                                    let obs = if set.is_empty() {
                                        0
                                    } else if tags.len() == 1 && set.len() == 3 {
                                        *tags.iter().next().unwrap()
                                    } else {
                                        u64::MAX - 2 // half-applied
                                    };
                                    (format!("relays/{g}"), None, Some(obs), true)
                                }
                                Err(_) => (format!("relays/{g}"), None, Some(u64::MAX), false),
                            },
                            8 => {
                                let w = rng.below(2);
                                let spec = ProcSpec { wid: w, mid: None, processed: 0, epoch: Some(1), g: Some(g), state: 1, reason: None };
                                let mut pm = spec.build(u);
                                pm.failure_reason = Some(name_of(v));
                                let r = s.save_processed_message(pm);
                                (format!("processed/{w}"), Some(v), None, r.is_ok())
                            }
                            _ => {
                                let w = rng.below(2);
                                match s.find_processed_message_by_event_id(&u.wid(w)) {
                                    Ok(Some(x)) => (format!("processed/{w}"), None, Some(x.failure_reason.as_deref().map(parse_name).unwrap_or(0)), true),
                                    Ok(None) => (format!("processed/{w}"), None, Some(0), true),
                                    Err(_) => (format!("processed/{w}"), None, Some(u64::MAX), false),
                                }
                            }
                        };
                        let ret = clock.fetch_add(1, Ordering::SeqCst);
                        recs.push(Rec { thread: t, key, call, ret, wrote, read, ok });
                    }
                    recs
                })
            })
            .collect();
        hs.into_iter()
            .map(|h| match h.join() {
                Ok(r) => r,
                Err(p) => {
                    let msg = p.downcast_ref::<&str>().map(|s| s.to_string()).or_else(|| p.downcast_ref::<String>().cloned()).unwrap_or_else(|| "panic".into());
                    vec![Rec { thread: usize::MAX, key: format!("PANIC:{msg}"), call: 0, ret: 0, wrote: None, read: None, ok: false }]
                }
            })
            .collect()
    });
    let mut by_key: BTreeMap<String, Vec<Rec>> = BTreeMap::new();
    for recs in all {
        for r in recs {
            if r.thread == usize::MAX {
                report.panics.push(r.key.clone());
                continue;
            }
            report.histories_ops += 1;
            if r.wrote.is_some() {
                report.writes += 1;
            } else {
                report.reads += 1;
            }
            if !r.ok {
                report.violations.push(("operation-failed".into(), format!("{} by thread {} returned an error", r.key, r.thread)));
            }
            by_key.entry(r.key.clone()).or_default().push(r);
        }
    }
    for (key, recs) in &by_key {
        report.keys.insert(key.split('/').next().unwrap_or("").to_string());
        check_register(key, recs, cfg, &mut report);
    }
    report
}

/// Linearizability of one key (a register with uniquely tagged writes): specific necessary
/// conditions first (they give the readable witnesses), then the complete zone test.
fn check_register(key: &str, recs: &[Rec], cfg: &StressCfg, rep: &mut StressReport) {
    let writes: BTreeMap<u64, &Rec> = recs.iter().filter_map(|r| r.wrote.map(|v| (v, r))).collect();
    let reads: Vec<&Rec> = recs.iter().filter(|r| r.wrote.is_none()).collect();
    // isolation: the private group is written by thread 0 only
    if cfg.groups > 1 && key.ends_with(&format!("/{}", cfg.groups - 1)) && key.starts_with("group/") {
        for r in &reads {
            if let Some(v) = r.read
                && v != 0
                && v < u64::MAX - 3
                && (v >> 32) != 1
            {
                rep.violations.push(("isolation".into(), format!("{key}: read saw tag {v:x} of a thread that never writes this group")));
            }
        }
    }
    for r in &reads {
        let Some(v) = r.read else { continue };
        if v == u64::MAX {
            continue;
        }
        if v == u64::MAX - 2 {
            rep.violations.push(("half-applied-replace".into(), format!("{key}: a listing showed a mixture of two replace calls (thread {} at stamp {})", r.thread, r.call)));
            continue;
        }
        if v == u64::MAX - 1 {
            rep.violations.push(("record-vanished".into(), format!("{key}: lookup returned nothing although the key always exists")));
            continue;
        }
        if v == 0 {
            // initial value: no write may have completed before the read started
            if let Some(w) = writes.values().find(|w| w.ok && w.ret < r.call) {
                rep.violations.push(("stale-read".into(), format!("{key}: read (stamps {}..{}) returned the initial value although write {:x} had completed at {}", r.call, r.ret, w.wrote.unwrap(), w.ret)));
            }
            continue;
        }
        let Some(w) = writes.get(&v) else {
            rep.violations.push(("torn-or-phantom-value".into(), format!("{key}: read returned {v:x}, which no thread wrote")));
            continue;
        };
        if w.call > r.ret {
            rep.violations.push(("read-from-the-future".into(), format!("{key}: read {}..{} returned {v:x} whose write started at {}", r.call, r.ret, w.call)));
        }
        // overwritten before the read began?
        if let Some(w2) = writes.values().find(|w2| w2.ok && w2.call > w.ret && w2.ret < r.call) {
            rep.violations.push(("lost-update-or-stale-read".into(), format!("{key}: read {}..{} returned {v:x} (written {}..{}) although {:x} was written entirely in between ({}..{})", r.call, r.ret, w.call, w.ret, w2.wrote.unwrap(), w2.call, w2.ret)));
        }
        if w.ret > r.call {
            rep.overlapping_pairs += 1;
        }
    }
    zone_test(key, &writes, &reads, rep);
    // two sequential reads never go backwards
    let mut sorted: Vec<&&Rec> = reads.iter().collect();
    sorted.sort_by_key(|r| r.call);
    for i in 0..sorted.len() {
        for j in i + 1..sorted.len().min(i + 12) {
            let (r1, r2) = (sorted[i], sorted[j]);
            if r1.ret < r2.call
                && let (Some(v1), Some(v2)) = (r1.read, r2.read)
                && v1 != v2
                && let (Some(w1), Some(w2)) = (writes.get(&v1), writes.get(&v2))
                && w2.ret < w1.call
            {
                rep.violations.push(("non-monotonic-reads".into(), format!("{key}: a later read returned {v2:x}, written entirely before {v1:x} which an earlier read had already returned")));
            }
        }
    }
}

/// Complete decision procedure for a register whose writes carry unique values (Gibbons & Korach,
/// "Testing shared memories", 1997): the *cluster* of a value is its write plus the reads that returned
/// it; its zone runs from the earliest return (`f`) to the latest call (`s`) in the cluster - a
/// *forward* zone [f, s] if f < s (some operation of the cluster began after another had ended: the
/// value was in the register throughout [f, s]), otherwise a *backward* zone [s, f]. The history is
/// linearizable iff (1) no read returns before its write is called, (2) no two forward zones overlap,
/// (3) no backward zone lies inside a forward zone. (1) is reported by the caller as
/// `read-from-the-future`. The initial value is a write that returned before every stamp.
fn zone_test(key: &str, writes: &BTreeMap<u64, &Rec>, reads: &[&Rec], rep: &mut StressReport) {
    // value -> (min return, max call)
    let mut cl: BTreeMap<u64, (u64, u64)> = BTreeMap::new();
    cl.insert(0, (0, 0));
    for (v, w) in writes {
        if w.ok {
            cl.insert(*v, (w.ret, w.call));
        }
    }
    for r in reads {
        let Some(v) = r.read else { continue };
        if v >= u64::MAX - 3 {
            continue;
        }
        if let Some(c) = cl.get_mut(&v) {
            c.0 = c.0.min(r.ret);
            c.1 = c.1.max(r.call);
        }
    }
    let mut forward: Vec<(u64, u64, u64)> = cl.iter().filter(|(_, (f, s))| f < s).map(|(v, (f, s))| (*f, *s, *v)).collect();
    forward.sort();
    for w in forward.windows(2) {
        if w[1].0 < w[0].1 {
            rep.violations.push((
                "not-linearizable-forward-zones-overlap".into(),
                format!("{key}: value {:x} was observed over stamps {}..{} and value {:x} over {}..{}: each was in the register throughout its span, and the spans overlap", w[0].2, w[0].0, w[0].1, w[1].2, w[1].0, w[1].1),
            ));
            return;
        }
    }
    for (v, (f, s)) in cl.iter().filter(|(_, (f, s))| f >= s) {
        // backward zone [s, f]
        if let Some(fz) = forward.iter().find(|fz| fz.0 < *s && *f < fz.1) {
            rep.violations.push((
                "not-linearizable-value-inside-another-values-span".into(),
                format!("{key}: every operation on value {v:x} overlaps the instant window {s}..{f}, which lies strictly inside {}..{} during which value {:x} was in the register throughout", fz.0, fz.1, fz.2),
            ));
            return;
        }
    }
}

/// The checker checked: (a) two overlapping writes and three sequential reads that see v1, v2, v1
/// (new-old inversion; every necessary condition above holds, only the zone test refutes it) must be
/// rejected; (b) the same history with the reads seeing v1, v2, v2 is linearizable and must pass.
pub fn checker_selftest() -> Result<(), String> {
    let cfg = StressCfg { threads: 3, ops_per_thread: 0, yield_pct: 0, groups: 1 };
    let rec = |thread: usize, call: u64, ret: u64, wrote: Option<u64>, read: Option<u64>| Rec { thread, key: "selftest/0".into(), call, ret, wrote, read, ok: true };
    let (v1, v2) = (tag(1, 1), tag(2, 1));
    let build = |third: u64| vec![rec(1, 1, 20, Some(v1), None), rec(2, 2, 21, Some(v2), None), rec(0, 3, 4, None, Some(v1)), rec(0, 5, 6, None, Some(v2)), rec(0, 7, 8, None, Some(third))];
    let mut bad = StressReport::default();
    check_register("selftest/0", &build(v1), &cfg, &mut bad);
    if !bad.violations.iter().any(|(c, _)| c.starts_with("not-linearizable")) {
        return Err(format!("the new-old inversion history was accepted: {:?}", bad.violations));
    }
    let mut good = StressReport::default();
    check_register("selftest/0", &build(v2), &cfg, &mut good);
    if !good.violations.is_empty() {
        return Err(format!("a linearizable history was rejected: {:?}", good.violations));
    }
    Ok(())
}

/// Snapshot-cut workload: one writer bumps epoch -> secret -> relays to version v, v+1, ...;
/// snapshotters run concurrently; every snapshot, restored later, must be a consistent cut.
pub fn run_snapshot_cut<S: MdkStorageProvider + Sync>(s: &S, u: &Universe, versions: u64, snapshotters: usize, seed: u64) -> StressReport {
    let mut report = StressReport::default();
    let g = 0usize;
    let gid = u.gid(g);
    let mk_group = |v: u64| {
        let spec = GroupSpec { g, nid: 0, nid_of: None, name: 0, desc: 0, admins: 1, epoch: v, state: 0, img: 0, last: None, su: 1 };
        spec.build(u)
    };
    s.save_group(mk_group(0)).expect("init");
    let mut sec0 = secret(u, g, 0, 0);
    sec0.secret = mdk_storage_traits::Secret::new([0u8; 32]);
    s.save_group_exporter_secret(sec0).expect("init secret");
    s.replace_group_relays(&gid, relay_set(0)).expect("init relays");
    let done = AtomicBool::new(false);
    let _section = super::stall::section("snapshots under a writer (run_snapshot_cut)");
    let taken: Vec<Vec<String>> = std::thread::scope(|sc| {
        let done = &done;
        let writer = sc.spawn(move || {
            for v in 1..=versions {
                s.save_group(mk_group(v)).unwrap();
                let mut sec = secret(u, g, 0, 0);
                let mut b = [0u8; 32];
                b[..8].copy_from_slice(&v.to_le_bytes());
                sec.secret = mdk_storage_traits::Secret::new(b);
                s.save_group_exporter_secret(sec).unwrap();
                s.replace_group_relays(&u.gid(g), relay_set(v)).unwrap();
                if v % 3 == 0 {
                    std::thread::yield_now();
                }
            }
            done.store(true, Ordering::SeqCst);
        });
        let hs: Vec<_> = (0..snapshotters)
            .map(|t| {
                sc.spawn(move || {
                    let mut rng = Rng::new(seed ^ (t as u64 + 77));
                    let mut names = vec![];
                    let mut k = 0;
                    while (k < 2 || !done.load(Ordering::SeqCst)) && k < 40 {
                        let name = format!("cut-{t}-{k}");
                        if s.create_group_snapshot(&u.gid(g), &name).is_ok() {
                            names.push(name);
                        }
                        k += 1;
                        if rng.chance(50) {
                            std::thread::yield_now();
                        }
                    }
                    names
                })
            })
            .collect();
        let _ = writer.join();
        hs.into_iter().map(|h| h.join().unwrap_or_default()).collect()
    });
    // quiescent: restore every snapshot and read the three versions
    for name in taken.into_iter().flatten() {
        if s.rollback_group_to_snapshot(&gid, &name).is_err() {
            report.violations.push(("snapshot-lost".into(), format!("snapshot {name} taken under load cannot be restored")));
            continue;
        }
        report.snapshots_checked += 1;
        let ve = s.find_group_by_mls_group_id(&gid).ok().flatten().map(|x| x.epoch);
        let vs = s.get_group_exporter_secret(&gid, 0).ok().flatten().map(|x| u64::from_le_bytes(x.secret[..8].try_into().unwrap()));
        let vr = s.group_relays(&gid).ok().map(|set| relay_tags(&set));
        let (Some(ve), Some(vs), Some(vr)) = (ve, vs, vr) else {
            report.violations.push(("snapshot-incomplete".into(), format!("snapshot {name}: group / secret / relays missing after restore")));
            continue;
        };
        if vr.len() != 1 {
            report.violations.push(("snapshot-with-half-applied-relays".into(), format!("snapshot {name}: relay tags {:?}", vr)));
            continue;
        }
        let vr = *vr.iter().next().unwrap();
        // write order per version: epoch, then secret, then relays
        let consistent = (ve == vs || ve == vs + 1) && (vs == vr || vs == vr + 1) && ve <= vr + 1;
        if !consistent {
            report.violations.push(("snapshot-not-a-consistent-cut".into(), format!("snapshot {name}: epoch v{ve}, secret v{vs}, relays v{vr} never existed at one instant")));
        }
        if ve != vr {
            report.overlapping_pairs += 1; // the cut fell inside a version bump
        }
    }
    report
}

/// Claim workload: check-then-act atomicity of `save_group` across its two indexes.
/// (A) `threads` groups, one per thread; in every round all threads try to move their own group to
/// the SAME fresh nostr group id at once. In any sequential order exactly one call succeeds; at the
/// quiescent point after the round the id resolves to the winner, every loser still resolves under
/// its previous id, and the winner's previous id resolves to nothing.
/// (B) two threads move the SAME group to two different fresh ids at once: afterwards the record
/// carries one of them, that one resolves, the other one and the previous one do not.
pub fn run_claims<S: MdkStorageProvider + Sync>(s: &S, u: &Universe, threads: usize, rounds: usize, seed: u64) -> StressReport {
    use std::sync::{Barrier, Mutex};
    let _section = super::stall::section("concurrent claims of one nostr group id (run_claims)");
    let mut report = StressReport::default();
    let template = GroupSpec { g: 0, nid: 0, nid_of: None, name: 0, desc: 0, admins: 1, epoch: 1, state: 0, img: 0, last: None, su: 1 }.build(u);
    let gid_of = |t: usize| mdk_storage_traits::GroupId::from_slice(&[0xC0u8, t as u8, (seed & 0xff) as u8, 7, 7, 7, 7, 7]);
    let nid = |a: u64, b: u64| -> [u8; 32] {
        let mut x = [0u8; 32];
        x[..8].copy_from_slice(&a.to_le_bytes());
        x[8..16].copy_from_slice(&b.to_le_bytes());
        x[16..24].copy_from_slice(&seed.to_le_bytes());
        x
    };
    let mk = |t: usize, id: [u8; 32]| {
        let mut g = template.clone();
        g.mls_group_id = gid_of(t);
        g.nostr_group_id = id;
        g
    };
    // own[t] = nostr id currently held by group t
    let own: Vec<Mutex<[u8; 32]>> = (0..threads).map(|t| Mutex::new(nid(1000 + t as u64, 0))).collect();
    for t in 0..threads {
        if s.save_group(mk(t, *own[t].lock().unwrap())).is_err() {
            report.violations.push(("claims-init-failed".into(), "initial save_group failed".into()));
            return report;
        }
    }
    let barrier = Barrier::new(threads);
    let oks: Vec<AtomicU64> = (0..rounds).map(|_| AtomicU64::new(0)).collect();
    let winner: Vec<AtomicU64> = (0..rounds).map(|_| AtomicU64::new(u64::MAX)).collect();
    let viol: Mutex<Vec<(String, String)>> = Mutex::new(vec![]);
    std::thread::scope(|sc| {
        for t in 0..threads {
            let (barrier, oks, winner, own, viol) = (&barrier, &oks, &winner, &own, &viol);
            sc.spawn(move || {
                for r in 0..rounds {
                    let shared = nid(r as u64, 1);
                    barrier.wait();
                    let res = s.save_group(mk(t, shared));
                    if res.is_ok() {
                        oks[r].fetch_add(1, Ordering::SeqCst);
                        winner[r].store(t as u64, Ordering::SeqCst);
                    }
                    let lead = barrier.wait().is_leader();
                    if lead {
                        // quiescent: nobody calls the store until the next barrier
                        let n_ok = oks[r].load(Ordering::SeqCst);
                        let mut v = viol.lock().unwrap();
                        if n_ok != 1 {
                            v.push(("claims-same-nostr-id-granted-to-several-groups".into(), format!("round {r}: {n_ok} of {threads} concurrent save_group calls claiming one fresh nostr group id for different groups succeeded (any sequential order grants it once)")));
                        }
                        let w = winner[r].load(Ordering::SeqCst) as usize;
                        if n_ok >= 1 && w < threads {
                            let by_nostr = s.find_group_by_nostr_group_id(&shared).ok().flatten().map(|g| g.mls_group_id);
                            let holders: Vec<usize> = (0..threads).filter(|x| s.find_group_by_mls_group_id(&gid_of(*x)).ok().flatten().map(|g| g.nostr_group_id == shared).unwrap_or(false)).collect();
                            if holders.len() != 1 {
                                v.push(("claims-two-records-carry-one-nostr-id".into(), format!("round {r}: groups {holders:?} all carry the contested nostr group id")));
                            } else if by_nostr != Some(gid_of(holders[0])) {
                                v.push(("claims-indexes-disagree".into(), format!("round {r}: group {} carries the contested id but the lookup by that id returns {:?}", holders[0], by_nostr.map(|g| hex::encode(g.as_slice())))));
                            }
                            for x in 0..threads {
                                let prev = *own[x].lock().unwrap();
                                let r2 = s.find_group_by_nostr_group_id(&prev).ok().flatten().map(|g| g.mls_group_id);
                                if holders.contains(&x) {
                                    if r2.is_some() {
                                        v.push(("claims-stale-index-entry".into(), format!("round {r}: the id group {x} held before it won still resolves")));
                                    }
                                } else if r2 != Some(gid_of(x)) {
                                    v.push(("claims-loser-lost-its-id".into(), format!("round {r}: group {x} lost the race but its own id resolves to {:?}", r2.map(|g| hex::encode(g.as_slice())))));
                                }
                            }
                            if holders.len() == 1 {
                                *own[holders[0]].lock().unwrap() = shared;
                            }
                        }
                    }
                    barrier.wait();
                }
            });
        }
    });
    report.violations.extend(viol.into_inner().unwrap());
    report.histories_ops += (threads * rounds) as u64;
    // (B) one group, two threads, two fresh ids
    let gb = threads + 1;
    let mut cur = nid(5000, 0);
    if s.save_group(mk(gb, cur)).is_ok() {
        for r in 0..rounds.min(30) {
            let (a, b) = (nid(r as u64, 2), nid(r as u64, 3));
            let bar = Barrier::new(2);
            std::thread::scope(|sc| {
                for id in [a, b] {
                    let bar = &bar;
                    sc.spawn(move || {
                        bar.wait();
                        let _ = s.save_group(mk(gb, id));
                    });
                }
            });
            report.histories_ops += 2;
            let rec = s.find_group_by_mls_group_id(&gid_of(gb)).ok().flatten().map(|g| g.nostr_group_id);
            let Some(rec) = rec else {
                report.violations.push(("claims-group-vanished".into(), format!("(B) round {r}: the group is gone after two concurrent saves")));
                break;
            };
            let res = |id: &[u8; 32]| s.find_group_by_nostr_group_id(id).ok().flatten().is_some();
            if rec != a && rec != b {
                report.violations.push(("claims-record-has-neither-id".into(), format!("(B) round {r}")));
            } else {
                let other = if rec == a { b } else { a };
                if !res(&rec) || res(&other) || res(&cur) {
                    report.violations.push(("claims-orphaned-index-entry".into(), format!("(B) round {r}: record carries {}, resolves: carried={} other={} previous={} (only the carried id may resolve)", hex::encode(&rec[..4]), res(&rec), res(&other), res(&cur))));
                }
            }
            cur = rec;
        }
    }
    report
}

/// Rollback under readers: one thread loops {create_group_snapshot; rollback_group_to_snapshot} on a
/// quiescent group - a no-op in every sequential order - while reader threads keep reading that
/// group. Every read must see the group as it is (record with its epoch, the complete relay set,
/// the exporter secret, a listing that succeeds): a rollback that empties the group and refills it
/// in two steps shows up as a missing / empty read.
pub fn run_rollback_readers<S: MdkStorageProvider + Sync>(s: &S, u: &Universe, iterations: usize, readers: usize, seed: u64) -> StressReport {
    let _section = super::stall::section("snapshot + rollback under readers (run_rollback_readers)");
    let mut report = StressReport::default();
    let g = 1usize;
    let gid = u.gid(g);
    let spec = GroupSpec { g, nid: 0, nid_of: None, name: 0, desc: 0, admins: 1, epoch: 7, state: 0, img: 0, last: None, su: 1 };
    if s.save_group(spec.build(u)).is_err() {
        report.violations.push(("rollback-readers-init-failed".into(), "save_group".into()));
        return report;
    }
    let mut sec = secret(u, g, 0, 0);
    sec.secret = mdk_storage_traits::Secret::new([7u8; 32]);
    let _ = s.save_group_exporter_secret(sec);
    let want_relays = relay_set(0x77);
    let _ = s.replace_group_relays(&gid, want_relays.clone());
    let done = AtomicBool::new(false);
    let viol: std::sync::Mutex<Vec<(String, String)>> = std::sync::Mutex::new(vec![]);
    let reads = AtomicU64::new(0);
    std::thread::scope(|sc| {
        let (done, viol, reads, gid, want_relays) = (&done, &viol, &reads, &gid, &want_relays);
        sc.spawn(move || {
            for k in 0..iterations {
                let name = format!("rr-{seed:x}-{k}");
                if s.create_group_snapshot(gid, &name).is_ok() && s.rollback_group_to_snapshot(gid, &name).is_err() {
                    viol.lock().unwrap().push(("rollback-readers-rollback-failed".into(), format!("iteration {k}")));
                }
                if k % 7 == 0 {
                    std::thread::yield_now();
                }
            }
            done.store(true, Ordering::SeqCst);
        });
        for _ in 0..readers {
            sc.spawn(move || {
                let mut n = 0u64;
                while !done.load(Ordering::SeqCst) && n < (iterations as u64) * 60 {
                    n += 1;
                    let bad: Option<(&str, String)> = match n % 4 {
                        0 => match s.find_group_by_mls_group_id(gid) {
                            Ok(Some(grp)) if grp.epoch == 7 => None,
                            other => Some(("group-record", format!("{:?}", other.map(|o| o.map(|x| x.epoch))))),
                        },
                        1 => match s.group_relays(gid) {
                            Ok(set) if relay_tags(&set) == [0x77u64].into_iter().collect() && set.len() == want_relays.len() => None,
                            other => Some(("relays", format!("{:?}", other.map(|x| x.len())))),
                        },
                        2 => match s.get_group_exporter_secret(gid, 0) {
                            Ok(Some(_)) => None,
                            other => Some(("exporter-secret", format!("{:?}", other.map(|x| x.is_some())))),
                        },
                        _ => match s.all_groups() {
                            Ok(v) if v.iter().any(|x| &x.mls_group_id == gid) => None,
                            other => Some(("group-list", format!("{:?}", other.map(|x| x.len())))),
                        },
                    };
                    if let Some((what, saw)) = bad {
                        let mut v = viol.lock().unwrap();
                        if v.len() < 5 {
                            v.push((format!("rollback-visible-half-done|{what}"), format!("while another thread took and restored a snapshot of a quiescent group, a reader saw {what} = {saw}")));
                        }
                    }
                }
                reads.fetch_add(n, Ordering::SeqCst);
            });
        }
    });
    report.violations.extend(viol.into_inner().unwrap());
    report.histories_ops += iterations as u64 * 2;
    report.reads += reads.load(Ordering::SeqCst);
    report
}

/// Rollback races: what two calls that touch ONE snapshot do to each other.
/// (A) a snapshot taken once is rolled back to by `threads` threads at the same instant: in any
/// sequential order the first call consumes it and the others find nothing, so exactly one call
/// may succeed; afterwards the group is in the snapshotted state and the snapshot is gone.
/// (B) a rollback to `S` races with a re-take of `S` (create under the same name replaces it):
/// sequentially either the re-take comes first (the group keeps its current state, `S` is consumed)
/// or the rollback comes first (the group is in the old state and a new `S` exists). Both calls
/// succeed in both orders. Any other end state - old state without `S`, current state with `S` -
/// was produced by no order of the two calls.
pub fn run_rollback_races<S: MdkStorageProvider + Sync>(s: &S, u: &Universe, threads: usize, rounds: usize, seed: u64) -> StressReport {
    use std::sync::Barrier;
    let _section = super::stall::section("rollbacks racing on one snapshot (run_rollback_races)");
    let mut report = StressReport::default();
    let g = 0usize;
    let gid = u.gid(g);
    let put = |v: u64| -> bool {
        let spec = GroupSpec { g, nid: 0, nid_of: None, name: 0, desc: 0, admins: 1, epoch: 3, state: 0, img: 0, last: None, su: 1 };
        let mut grp = spec.build(u);
        grp.name = name_of(v);
        s.save_group(grp).is_ok()
    };
    let get = || -> u64 { s.find_group_by_mls_group_id(&gid).ok().flatten().map(|x| parse_name(&x.name)).unwrap_or(u64::MAX) };
    let has = |name: &str| -> bool { s.list_group_snapshots(&gid).map(|l| l.iter().any(|(n, _)| n == name)).unwrap_or(false) };
    if !put(1) {
        report.violations.push(("rollback-races-init-failed".into(), "save_group".into()));
        return report;
    }
    for r in 0..rounds {
        let (v0, v1) = (tag(90, 2 * r as u64 + 1), tag(90, 2 * r as u64 + 2));
        let name = format!("race-{seed:x}-{r}");
        // ---- (A) --------------------------------------------------------------------------------
        if !put(v0) || s.create_group_snapshot(&gid, &name).is_err() || !put(v1) {
            report.violations.push(("rollback-races-setup-failed".into(), format!("round {r}")));
            return report;
        }
        let bar = Barrier::new(threads);
        let oks = AtomicU64::new(0);
        std::thread::scope(|sc| {
            for _ in 0..threads {
                let (bar, oks, gid, name) = (&bar, &oks, &gid, &name);
                sc.spawn(move || {
                    bar.wait();
                    if s.rollback_group_to_snapshot(gid, name).is_ok() {
                        oks.fetch_add(1, Ordering::SeqCst);
                    }
                });
            }
        });
        report.histories_ops += threads as u64;
        let n_ok = oks.load(Ordering::SeqCst);
        if n_ok != 1 {
            report.violations.push(("snapshot-consumed-other-than-once".into(), format!("round {r}: {threads} concurrent rollbacks to a snapshot taken once: {n_ok} succeeded")));
            return report;
        }
        let (st, still) = (get(), has(&name));
        if st != v0 || still {
            report.violations.push(("state-after-concurrent-rollbacks".into(), format!("round {r}: group holds {st:x} (snapshotted {v0:x}), snapshot still listed: {still}")));
            return report;
        }
        // ---- (B) --------------------------------------------------------------------------------
        if s.create_group_snapshot(&gid, &name).is_err() || !put(v1) {
            report.violations.push(("rollback-races-setup-failed".into(), format!("round {r} (B)")));
            return report;
        }
        let bar = Barrier::new(2);
        let (rb_ok, ct_ok) = (AtomicBool::new(false), AtomicBool::new(false));
        std::thread::scope(|sc| {
            let (bar, rb_ok, ct_ok, gid, name) = (&bar, &rb_ok, &ct_ok, &gid, &name);
            sc.spawn(move || {
                bar.wait();
                rb_ok.store(s.rollback_group_to_snapshot(gid, name).is_ok(), Ordering::SeqCst);
            });
            sc.spawn(move || {
                bar.wait();
                if (r + seed as usize) % 3 == 0 {
                    std::thread::yield_now();
                }
                ct_ok.store(s.create_group_snapshot(gid, name).is_ok(), Ordering::SeqCst);
            });
        });
        report.histories_ops += 2;
        let (st, still) = (get(), has(&name));
        let (rb, ct) = (rb_ok.load(Ordering::SeqCst), ct_ok.load(Ordering::SeqCst));
        let sequential = rb && ct && ((st == v1 && !still) || (st == v0 && still));
        if !sequential {
            report.violations.push((
                "rollback-vs-retake-matches-no-order".into(),
                format!("round {r}: rollback ok={rb}, re-take ok={ct}; the group holds {} and the snapshot is {}: no order of the two calls gives that", if st == v0 { "the OLD state".to_string() } else if st == v1 { "the CURRENT state".to_string() } else { format!("{st:x}") }, if still { "listed" } else { "gone" }),
            ));
            return report;
        }
        // if the re-take came second its CONTENT must be the state after the rollback (the old one):
        // a snapshot that holds the state from before the rollback was taken "in the middle"
        if still {
            if s.rollback_group_to_snapshot(&gid, &name).is_err() || get() != v0 {
                report.violations.push(("retaken-snapshot-holds-the-state-from-before-the-rollback".into(), format!("round {r}: the rollback was ordered before the re-take (old state, snapshot listed), but rolling back to the re-taken snapshot gives {:x}, not the old state {v0:x}", get())));
                return report;
            }
        }
        // leave nothing behind for the next round
        let _ = s.release_group_snapshot(&gid, &name);
    }
    report
}

/// Generic race engine: ANY two or three operations of the storage operation language (vstore/ops.rs:
/// the mdk traits and the OpenMLS storage provider, snapshots included) are released from a barrier
/// on one storage instance, after a random sequential prefix. The executable reference model decides:
/// the results of the calls and the complete read-out afterwards must equal what SOME order of the
/// same calls produces on the model (k! candidate orders, k <= 3). The model then continues from
/// that order. This is a full linearizability check of each small history against the sequential
/// specification, for every operation pair the generator can draw - not only the registers.
pub fn run_op_races<S: MdkStorageProvider + Sync>(s: &S, u: &Universe, trials: usize, seed: u64) -> StressReport {
    use super::model::{Model, diff};
    use super::ops::{Gen, GenCfg, Op, Res, apply, dump};
    use std::sync::Barrier;
    let _section = super::stall::section("pairs and triples of arbitrary operations (run_op_races)");
    let mut report = StressReport::default();
    let mut rng = Rng::new(seed ^ 0x0b5e_55ed);
    let cfg = GenCfg { snapshot_weight: 30, mls_weight: 15, message_weight: 25, over_limit: false, nid_collision: false };
    let mut g = Gen::new(&mut rng, cfg);
    let mut model = Model::default();
    const PERMS2: [&[usize]; 2] = [&[0, 1], &[1, 0]];
    const PERMS3: [&[usize]; 6] = [&[0, 1, 2], &[0, 2, 1], &[1, 0, 2], &[1, 2, 0], &[2, 0, 1], &[2, 1, 0]];
    // the contract's preconditions, as in the sequential differential (props/storage_seq.rs): a
    // snapshot is only taken of an existing group; a group only claims another group's nostr id
    // while that group holds it
    fn contract(mut op: Op, g: &mut Gen, model: &Model, u: &Universe) -> Op {
        if let Op::SnapCreate { g: gi, .. } = &op
            && !model.group_exists(*gi)
        {
            op = Op::SaveGroup(GroupSpec { nid_of: None, name: 0, desc: 0, ..g.group_spec(*gi) });
        }
        if let Op::SaveGroup(spec) = &mut op
            && let Some(o) = spec.nid_of
            && (o == spec.g || model.groups.get(&o).and_then(|x| x.record.as_ref()).map(|r| r.nostr_group_id) != Some(u.nids[o][spec.nid]))
        {
            spec.nid_of = None;
        }
        op
    }
    {
        let first = Op::SaveGroup(GroupSpec { nid_of: None, name: 0, desc: 0, ..g.group_spec(0) });
        let _ = apply(s, u, &first);
        model.apply(u, &first);
    }
    // Candidate set: every sequential state that explains everything observed so far. Two orders of a
    // race can give the same results and the same read-out and still differ in what is not read out
    // (the CONTENT of a snapshot taken during the race): both stay candidates until a later operation
    // tells them apart. Only an EMPTY set is a violation.
    let mut cands: Vec<Model> = vec![model];
    let mut trail: std::collections::VecDeque<String> = Default::default();
    let mut note = |trail: &mut std::collections::VecDeque<String>, x: String| {
        trail.push_back(x);
        if trail.len() > std::env::var("VERIF_TRAIL").ok().and_then(|x| x.parse().ok()).unwrap_or(14usize) {
            trail.pop_front();
        }
    };
    // identity of a candidate = its read-out plus the read-out of every snapshot's content (the
    // derived Debug of the model redacts secrets and cannot tell two candidates apart)
    let key = |m: &Model| {
        let mut k = format!("{:?}", m.dump(u));
        for ((gi, n), snap) in &m.snapshots {
            let mut t = Model::default();
            t.groups.insert(*gi, snap.clone());
            k.push_str(&format!("|snap {gi}/{n}: {:?}", t.dump(u)));
        }
        k
    };
    for t in 0..trials {
        for _ in 0..g.rng.range(1, 6) {
            let op = g.next();
            let op = contract(op, &mut g, &cands[0], u);
            let a = apply(s, u, &op);
            note(&mut trail, format!("seq {op:?} -> ok={}", matches!(a, Res::Ok(_))));
            let before = cands.len();
            cands = cands
                .into_iter()
                .filter_map(|mut m| {
                    let b = m.apply(u, &op);
                    (a == b).then_some(m)
                })
                .collect();
            if cands.is_empty() {
                report.violations.push((format!("not-linearizable|revealed-by={}", op.kind()), format!("trial {t}: the sequential call {op:?} returned ok={} which none of the {before} sequential explanations of the earlier races allows; trail: {}", matches!(a, Res::Ok(_)), trail.iter().cloned().collect::<Vec<_>>().join(" ;; "))));
                return report;
            }
        }
        let k = if g.rng.chance(30) { 3 } else { 2 };
        let ops: Vec<Op> = (0..k)
            .map(|_| {
                let op = g.next();
                contract(op, &mut g, &cands[0], u)
            })
            .collect();
        // candidates that the read-out before the race already refutes drop out
        let now = dump(s, u);
        let before = cands.len();
        let mut first_diff = String::new();
        cands.retain(|m| {
            let d = diff(&m.dump(u), &now, |_| true);
            if let Some(x) = d.first()
                && first_diff.is_empty()
            {
                first_diff = format!("{}: expected `{}` got `{}`", x.0, crate::util::short(&x.1, 100), crate::util::short(&x.2, 100));
            }
            d.is_empty()
        });
        if cands.is_empty() {
            report.violations.push(("not-linearizable|revealed-by=read-out".into(), format!("trial {t}: the read-out matches none of the {before} sequential explanations of the earlier races; {first_diff}; trail: {}", trail.iter().cloned().collect::<Vec<_>>().join(" ;; "))));
            return report;
        }
        let bar = Barrier::new(k);
        // self-test mode of the checker (VERIF_OPRACE_SERIAL=1): the "race" is executed in a random
        // ORDER on one thread - trivially linearizable, so any alarm then is the checker's own
        let serial = std::env::var("VERIF_OPRACE_SERIAL").is_ok();
        let results: Vec<Res> = if serial {
            let mut order: Vec<usize> = (0..k).collect();
            g.rng.shuffle(&mut order);
            let mut rs: Vec<Res> = vec![Res::Err; k];
            for i in order {
                rs[i] = apply(s, u, &ops[i]);
            }
            rs
        } else {
            std::thread::scope(|sc| {
                let hs: Vec<_> = ops
                    .iter()
                    .map(|op| {
                        let bar = &bar;
                        sc.spawn(move || {
                            bar.wait();
                            apply(s, u, op)
                        })
                    })
                    .collect();
                hs.into_iter().map(|h| h.join().unwrap_or(Res::Err)).collect()
            })
        };
        report.histories_ops += k as u64;
        note(&mut trail, format!("RACE {} -> ok={:?}", ops.iter().map(|o| format!("{o:?}")).collect::<Vec<_>>().join(" || "), results.iter().map(|r| matches!(r, Res::Ok(_))).collect::<Vec<_>>()));
        let kinds: Vec<&str> = {
            let mut v: Vec<&str> = ops.iter().map(|o| o.kind()).collect();
            v.sort();
            v
        };
        report.keys.insert(format!("race:{}", kinds.join("+")));
        let actual = dump(s, u);
        let perms: &[&[usize]] = if k == 2 { &PERMS2 } else { &PERMS3 };
        let mut next: Vec<Model> = vec![];
        let mut seen: BTreeSet<String> = BTreeSet::new();
        let mut nearest: Option<(usize, String)> = None;
        for c in &cands {
            for perm in perms {
                let mut m = c.clone();
                let mut rs: Vec<Option<Res>> = vec![None; k];
                for &i in perm.iter() {
                    rs[i] = Some(m.apply(u, &ops[i]));
                }
                let same_results = rs.iter().zip(results.iter()).all(|(a, b)| a.as_ref() == Some(b));
                let d = diff(&m.dump(u), &actual, |_| true);
                if same_results && d.is_empty() {
                    if seen.insert(key(&m)) {
                        next.push(m);
                    }
                    continue;
                }
                let score = d.len() + if same_results { 0 } else { 100 };
                if nearest.as_ref().map(|(sc, _)| score < *sc).unwrap_or(true) {
                    let why = if !same_results { format!("results differ (order {:?} gives ok={:?})", perm, rs.iter().map(|r| matches!(r, Some(Res::Ok(_)))).collect::<Vec<_>>()) } else { format!("read-out differs in {}: expected `{}` got `{}`", d[0].0, crate::util::short(&d[0].1, 120), crate::util::short(&d[0].2, 120)) };
                    nearest = Some((score, why));
                }
            }
        }
        if next.is_empty() {
            report.violations.push((
                format!("not-linearizable|ops={}", kinds.join("+")),
                format!("trial {t}: {} released together returned ok={:?}; results and read-out match no order of these calls on the reference model ({} sequential explanations of the history so far were tried); nearest order: {}", ops.iter().map(|o| format!("{o:?}")).collect::<Vec<_>>().join(" || "), results.iter().map(|r| matches!(r, Res::Ok(_))).collect::<Vec<_>>(), cands.len(), nearest.map(|x| x.1).unwrap_or_default()),
            ));
            return report;
        }
        if next.len() > 48 {
            // too many indistinguishable explanations to carry on soundly: stop this instance here
            report.keys.insert("candidate-set-overflow".into());
            return report;
        }
        if next.len() > 1 {
            report.overlapping_pairs += 1;
        }
        cands = next;
    }
    report
}
