//! Small key pools ("universe") for storage-level workloads. No secp256k1 / SQLite calls here so
//! that the same code runs under Miri.

use std::collections::BTreeSet;

use mdk_storage_traits::GroupId;
use mdk_storage_traits::Secret;
use mdk_storage_traits::groups::types::{Group, GroupExporterSecret, GroupState, SelfUpdateState};
use mdk_storage_traits::messages::types::{Message, MessageState, ProcessedMessage, ProcessedMessageState};
use mdk_storage_traits::welcomes::types::{ProcessedWelcome, ProcessedWelcomeState, Welcome, WelcomeState};
use nostr::{EventId, Kind, PublicKey, RelayUrl, Tag, Tags, Timestamp, UnsignedEvent};
use serde::{Deserialize, Serialize};

use crate::rng::Rng;

/// Valid x-only secp256k1 public keys (generated once with `Keys::generate()`; constants so that
/// Miri runs need no FFI).
pub const PUBKEYS: [&str; 6] = [
    "79be667ef9dcbbac55a06295ce870b07029bfcdb2dce28d959f2815b16f81798",
    "c6047f9441ed7d6d3045406e95c07cd85c778e4b8cef3ca7abac09b95c709ee5",
    "f9308a019258c31049344f85f89d5229b531c845836f99b08601f113bce036f9",
    "e493dbf1c10d80f3581e4904930b1404cc6c13900ee0758474fa94abe8c4cd13",
    "2f8bde4d1a07209355b4a7250a5c5128e88b84bddc619ab7cba8d569b240efe4",
    "fff97bd5755eeea420453a14355235d382f6472f8568a18b2f057a1460297556",
];

pub const N_GROUPS: usize = 3;
pub const N_NIDS: usize = 2; // per group
pub const N_MSG: usize = 5;
pub const N_WRAP: usize = 6;
pub const N_WELCOME: usize = 3;
pub const N_EPOCH: u64 = 4;
pub const TS: [u64; 3] = [1_700_000_000, 1_700_000_001, 1_700_000_002];
pub const SNAP_NAMES: [&str; 3] = ["s0", "s1", "s2"];
pub const RELAYS: [&str; 4] = ["wss://r0.example.com", "wss://r1.example.com", "wss://r2.example.com/path", "ws://r3.example.org:7777"];
pub const TAG_NEEDLES: [&str; 3] = ["aa11", "bb22", "cc33"];

#[derive(Clone, Debug, Serialize, Deserialize)]
pub struct Universe {
    pub seed: u64,
    pub groups: Vec<Vec<u8>>,
    pub nids: Vec<Vec<[u8; 32]>>,
    pub msg_ids: Vec<[u8; 32]>,
    pub wrap_ids: Vec<[u8; 32]>,
    pub welcome_ids: Vec<[u8; 32]>,
    pub welcome_wrap_ids: Vec<[u8; 32]>,
}

impl Universe {
    pub fn new(seed: u64) -> Self {
        let mut r = Rng::new(seed ^ 0x5EED_0001);
        Universe {
            seed,
            // different lengths on purpose (MLS group ids are opaque byte strings)
            groups: (0..N_GROUPS).map(|i| r.vec(if i == 0 { 32 } else { 16 + i })).collect(),
            nids: (0..N_GROUPS).map(|_| (0..N_NIDS).map(|_| r.bytes::<32>()).collect()).collect(),
            msg_ids: (0..N_MSG).map(|_| r.bytes::<32>()).collect(),
            wrap_ids: (0..N_WRAP).map(|_| r.bytes::<32>()).collect(),
            welcome_ids: (0..N_WELCOME).map(|_| r.bytes::<32>()).collect(),
            welcome_wrap_ids: (0..N_WELCOME).map(|_| r.bytes::<32>()).collect(),
        }
    }
    pub fn gid(&self, g: usize) -> GroupId {
        GroupId::from_slice(&self.groups[g])
    }
    pub fn g_index(&self, gid: &GroupId) -> Option<usize> {
        self.groups.iter().position(|b| b.as_slice() == gid.as_slice())
    }
    pub fn pk(&self, i: usize) -> PublicKey {
        PublicKey::from_hex(PUBKEYS[i % PUBKEYS.len()]).unwrap()
    }
    pub fn mid(&self, i: usize) -> EventId {
        EventId::from_byte_array(self.msg_ids[i])
    }
    pub fn wid(&self, i: usize) -> EventId {
        EventId::from_byte_array(self.wrap_ids[i])
    }
    pub fn welcome_id(&self, i: usize) -> EventId {
        EventId::from_byte_array(self.welcome_ids[i])
    }
    pub fn welcome_wid(&self, i: usize) -> EventId {
        EventId::from_byte_array(self.welcome_wrap_ids[i])
    }
    pub fn name(&self, i: usize) -> String {
        match i {
            0 => "alpha".to_string(),
            1 => "gr\u{00fc}ppe \u{1F980}".to_string(),
            2 => "x".repeat(255),
            3 => String::new(),
            _ => "y".repeat(300), // over both limits
        }
    }
    pub fn desc(&self, i: usize) -> String {
        match i {
            0 => "d".to_string(),
            1 => "\u{65e5}\u{672c}\u{8a9e} description".to_string(),
            2 => "z".repeat(2000),
            3 => String::new(),
            _ => "w".repeat(5000), // over both limits
        }
    }
    pub fn relay_set(&self, mask: u8) -> BTreeSet<RelayUrl> {
        (0..RELAYS.len()).filter(|i| mask & (1 << i) != 0).map(|i| RelayUrl::parse(RELAYS[i]).unwrap()).collect()
    }
    pub fn admin_set(&self, mask: u8) -> BTreeSet<PublicKey> {
        (0..PUBKEYS.len()).filter(|i| mask & (1 << i) != 0).map(|i| self.pk(i)).collect()
    }
}

#[derive(Clone, Debug, Serialize, Deserialize, PartialEq)]
pub struct GroupSpec {
    pub g: usize,
    pub nid: usize,
    /// `None`: use own pool `nids[g][nid]`; `Some(other)`: use `nids[other][nid]` (cross-group collision probe)
    pub nid_of: Option<usize>,
    pub name: usize,
    pub desc: usize,
    pub admins: u8,
    pub epoch: u64,
    pub state: u8,
    pub img: u8,
    pub last: Option<(usize, usize, usize)>,
    pub su: u8,
}

impl GroupSpec {
    pub fn build(&self, u: &Universe) -> Group {
        let tagb = |b: u8, n: u8| -> [u8; 32] { [b ^ n; 32] };
        Group {
            mls_group_id: u.gid(self.g),
            nostr_group_id: u.nids[self.nid_of.unwrap_or(self.g)][self.nid],
            name: u.name(self.name),
            description: u.desc(self.desc),
            image_hash: (self.img & 1 != 0).then(|| tagb(0x11, self.img)),
            image_key: (self.img & 2 != 0).then(|| Secret::new(tagb(0x22, self.img))),
            image_nonce: (self.img & 4 != 0).then(|| Secret::new([0x33 ^ self.img; 12])),
            admin_pubkeys: u.admin_set(self.admins),
            last_message_id: self.last.map(|l| u.mid(l.0)),
            last_message_at: self.last.map(|l| Timestamp::from_secs(TS[l.1])),
            last_message_processed_at: self.last.map(|l| Timestamp::from_secs(TS[l.2])),
            epoch: self.epoch,
            state: match self.state % 3 {
                0 => GroupState::Active,
                1 => GroupState::Inactive,
                _ => GroupState::Pending,
            },
            self_update_state: if self.su == 0 { SelfUpdateState::Required } else { SelfUpdateState::CompletedAt(Timestamp::from_secs(TS[(self.su as usize) % 3])) },
        }
    }
}

#[derive(Clone, Debug, Serialize, Deserialize, PartialEq)]
pub struct MsgSpec {
    pub g: usize,
    pub mid: usize,
    pub pk: usize,
    pub kind: u16,
    pub created: usize,
    pub processed: usize,
    /// content variant; the unique write tag is embedded in the content
    pub content: u32,
    pub tags: u8,
    pub wid: usize,
    pub epoch: Option<u64>,
    pub state: u8,
}

pub fn msg_state(s: u8) -> MessageState {
    match s % 4 {
        0 => MessageState::Created,
        1 => MessageState::Processed,
        2 => MessageState::Deleted,
        _ => MessageState::EpochInvalidated,
    }
}

impl MsgSpec {
    pub fn build(&self, u: &Universe) -> Message {
        let tags: Vec<Tag> = (0..3)
            .filter(|i| self.tags & (1 << i) != 0)
            .map(|i| Tag::parse(["imeta".to_string(), format!("x {}", TAG_NEEDLES[i]), format!("m image/png")]).unwrap())
            .collect();
        let tags = Tags::from_list(tags);
        let content = format!("content-{}", self.content);
        let pubkey = u.pk(self.pk);
        let created_at = Timestamp::from_secs(TS[self.created]);
        let kind = Kind::from(self.kind);
        let event = UnsignedEvent { id: Some(u.mid(self.mid)), pubkey, created_at, kind, tags: tags.clone(), content: content.clone() };
        Message {
            id: u.mid(self.mid),
            pubkey,
            kind,
            mls_group_id: u.gid(self.g),
            created_at,
            processed_at: Timestamp::from_secs(TS[self.processed]),
            content,
            tags,
            event,
            wrapper_event_id: u.wid(self.wid),
            epoch: self.epoch,
            state: msg_state(self.state),
        }
    }
}

#[derive(Clone, Debug, Serialize, Deserialize, PartialEq)]
pub struct ProcSpec {
    pub wid: usize,
    pub mid: Option<usize>,
    pub processed: usize,
    pub epoch: Option<u64>,
    pub g: Option<usize>,
    pub state: u8,
    pub reason: Option<u32>,
}

pub fn proc_state(s: u8) -> ProcessedMessageState {
    match s % 6 {
        0 => ProcessedMessageState::Created,
        1 => ProcessedMessageState::Processed,
        2 => ProcessedMessageState::ProcessedCommit,
        3 => ProcessedMessageState::Failed,
        4 => ProcessedMessageState::EpochInvalidated,
        _ => ProcessedMessageState::Retryable,
    }
}

impl ProcSpec {
    pub fn build(&self, u: &Universe) -> ProcessedMessage {
        ProcessedMessage {
            wrapper_event_id: u.wid(self.wid),
            message_event_id: self.mid.map(|m| u.mid(m)),
            processed_at: Timestamp::from_secs(TS[self.processed]),
            epoch: self.epoch,
            mls_group_id: self.g.map(|g| u.gid(g)),
            state: proc_state(self.state),
            failure_reason: self.reason.map(|r| format!("reason-{r}")),
        }
    }
}

#[derive(Clone, Debug, Serialize, Deserialize, PartialEq)]
pub struct WelcomeSpec {
    pub w: usize,
    pub g: usize,
    pub nid: usize,
    pub name: usize,
    pub admins: u8,
    pub relays: u8,
    pub welcomer: usize,
    pub count: u32,
    pub state: u8,
    pub wwid: usize,
    pub img: u8,
}

impl WelcomeSpec {
    pub fn build(&self, u: &Universe) -> Welcome {
        let event = UnsignedEvent {
            id: Some(u.welcome_id(self.w)),
            pubkey: u.pk(self.welcomer),
            created_at: Timestamp::from_secs(TS[0]),
            kind: Kind::MlsWelcome,
            tags: Tags::new(),
            content: format!("welcome-{}", self.count),
        };
        Welcome {
            id: u.welcome_id(self.w),
            event,
            mls_group_id: u.gid(self.g),
            nostr_group_id: u.nids[self.g][self.nid],
            group_name: u.name(self.name % 4),
            group_description: u.desc(self.name % 4),
            group_image_hash: (self.img & 1 != 0).then(|| [0x44; 32]),
            group_image_key: (self.img & 2 != 0).then(|| Secret::new([0x55; 32])),
            group_image_nonce: (self.img & 4 != 0).then(|| Secret::new([0x66; 12])),
            group_admin_pubkeys: u.admin_set(self.admins),
            group_relays: u.relay_set(self.relays),
            welcomer: u.pk(self.welcomer),
            member_count: self.count,
            state: match self.state % 4 {
                0 => WelcomeState::Pending,
                1 => WelcomeState::Accepted,
                2 => WelcomeState::Declined,
                _ => WelcomeState::Ignored,
            },
            wrapper_event_id: u.welcome_wid(self.wwid),
        }
    }
}

#[derive(Clone, Debug, Serialize, Deserialize, PartialEq)]
pub struct ProcWelcomeSpec {
    pub wwid: usize,
    pub w: Option<usize>,
    pub state: u8,
    pub reason: Option<u32>,
}
impl ProcWelcomeSpec {
    pub fn build(&self, u: &Universe) -> ProcessedWelcome {
        ProcessedWelcome {
            wrapper_event_id: u.welcome_wid(self.wwid),
            welcome_event_id: self.w.map(|w| u.welcome_id(w)),
            processed_at: Timestamp::from_secs(TS[1]),
            state: if self.state % 2 == 0 { ProcessedWelcomeState::Processed } else { ProcessedWelcomeState::Failed },
            failure_reason: self.reason.map(|r| format!("wreason-{r}")),
        }
    }
}

pub fn secret(u: &Universe, g: usize, epoch: u64, v: u32) -> GroupExporterSecret {
    let mut s = [0u8; 32];
    s[0] = g as u8;
    s[1] = epoch as u8;
    s[2..6].copy_from_slice(&v.to_le_bytes());
    for (i, b) in s.iter_mut().enumerate().skip(6) {
        *b = (i as u8).wrapping_mul(7) ^ (v as u8);
    }
    GroupExporterSecret { mls_group_id: u.gid(g), epoch, secret: Secret::new(s) }
}
