#!/usr/bin/env python3
"""Regenerates the measured cost table of DESIGN.md section 7 (between the COST-TABLE markers) from /verif/evidence."""
import json, re
ENG = {"C01":"E1 histories","C02":"E1 histories + windows trials","C03":"E1 linear histories x every observer","C04":"E1 + adversary","C05":"E1 + adversary","C06":"16 child shards + history refusals","C07":"E1 histories with re-delivery probes","C08":"E1 histories, invariant after every step","C09":"E2 sequences, read-out after every operation","C10":"E2 differential","C11":"E1 twin segments x restart sets","C12":"E3 cuts + in-process faults","C13":"histories + matrix + concurrent opens","C14":"capture tour","C15":"round trips + mutations","C16":"invitation sequences","C17":"files / images","C18":"E2 ordering + E1 pointer","C19":"threads + TSan + Miri","C20":"E1 histories + TTL cases"}
rows=["| property | engine | evaluations (distinct non-trivial) | wall | seed / tier |","|---|---|---|---|---|"]
for i in range(1,21):
    p=f"C{i:02d}"
    e=json.load(open(f"/verif/evidence/{p}.json")); c=e["coverage"]
    rows.append(f"| {p} | {ENG[p]} | {c['evaluations']:,} ({c['distinct_nontrivial']:,}) | {round(e['wall_s'])} s | {e['seed']} / {e['tier']} |".replace(","," "))
t="\n".join(rows)
p="/verif/DESIGN.md"; s=open(p).read()
if "<!-- COST-TABLE-BEGIN -->" in s:
    s=re.sub(r"<!-- COST-TABLE-BEGIN -->.*<!-- COST-TABLE-END -->", lambda _: "<!-- COST-TABLE-BEGIN -->\n"+t+"\n<!-- COST-TABLE-END -->", s, flags=re.S)
else:
    a=s.index("| property | engine | evaluations (distinct non-trivial) | wall |")
    b=s.index("`setup_cmd` pays the cold builds once")
    s=s[:a]+"<!-- COST-TABLE-BEGIN -->\n"+t+"\n<!-- COST-TABLE-END -->\n\n"+s[b:]
open(p,"w").write(s)
print("ok")
