#!/usr/bin/env python3
"""Generates /verif/MANIFEST.json from the table below (kept in one place so it stays valid)."""
import json, subprocess, os

HOOK_COMMITS = subprocess.run(["git", "-C", "/repo", "log", "--format=%H %s"], capture_output=True, text=True).stdout.splitlines()
hooks = [l.split()[0] for l in HOOK_COMMITS if " verif-hooks:" in l]

CHECKS = {
 "C01": dict(engine="vsim", technique="runtime monitoring: world simulator drives the real library through generated fork/delivery histories; convergence oracle = a race-free oracle replica fed only the MIP-03 winners; divergences classified by history-derived predicates",
   text="Exploration: held on N generated histories (forks of 1-3 concurrent commits with pinned wrapper timestamps incl. ties, duplicates, per-member delivery orders, echo/immediate own-commit modes, causal/unrestricted delivery, leave proposals, roster changes, nostr-id rotations). After the re-offer fixpoint every remaining member is compared with an oracle replica that applied only the MIP-03-selected chain. In the clean regime any divergence is a violation; in dirty regimes divergences must match a listed known finding exactly.",
   note="Delivery orders are harness-chosen abstract schedules; wrapper created_at pinned by hook H1; key material (and so the id tie-break) is fresh per run; observation through the public API + load_mls_group (repo feature debug-examples). Forks deeper than the configured retention are generated but not judged.", ref="5/C01"),
 "C02": dict(engine="vsim", technique="runtime monitoring: exactly-once / intact / valid accounting of uniquely tagged application messages over simulator histories against the canonical chain",
   text="Exploration: on the same histories as C01 every application message (unique body) created on the canonical chain must be stored exactly once, unaltered and Processed at every converged client that was in its sending state (inside the configured past-epoch window at first delivery); messages of losing branches must not be left valid.",
   note="Judges only clients that converged (others are C01's business); default sender-ratchet windows are never exceeded by the generated bursts.", ref="5/C02"),
 "C03": dict(engine="vsim", technique="runtime monitoring: canary (unique plaintext) scan of everything every client stores or is returned, against the membership timeline recorded at send time, after feeding every client every published event and welcome in several orders",
   text="Exploration: on N linear histories with adds, removals, leaves, self-updates, id rotations and re-invitations, every client (never-member, other-group member, ex-members with their storage, late joiners, members) is fed all wrapper events and welcome rumors in log order, reversed and shuffled, twice; no client may store or be returned a message body whose epoch's member set does not contain its user; a client that processed its removal is Inactive and cannot send.",
   note="Cryptographic strength is not observable; what is decided is that no driven path hands over plaintext or keeps a removed member active.", ref="5/C03"),
 "C04": dict(engine="vsim+adversary", technique="runtime monitoring: adversarial-member workload (spoofed author, pre-set/stale rumor ids, odd fields, verbatim and re-wrapped replays, re-tagged wrappers) with a shadow map of stored messages and per-message binding checks re-evaluated after every attack at two honest receivers",
   text="Exploration: after every one of N attacks by a malicious member every message stored at two honest receivers, in every group, must have an id that is the NIP-01 hash of its stored fields and of its stored event, an author equal to the identity whose MLS ciphertext it was, and no earlier stored message may have changed author or content or vanished; no body may be stored twice.",
   note="The MLS-authenticated sender is known by construction (the harness knows whose stored state produced each ciphertext).", ref="5/C04"),
 "C05": dict(engine="vsim+adversary", technique="runtime monitoring: authorisation-rule monitor over before/after views (members, admins, group data, leaf->identity map) of every receiver for messages built with the OpenMLS commit builder by each sender role, and for honest admin API operations with foreign proposals planted in the queue",
   text="Exploration: on N (sender role x content x receiver) trials and (admin operation x planted proposal) trials, a 20-line reference rule is evaluated at every receiver: non-admin author => only its own key material may change; a proposal alone => nothing; admin author => the roster / group-data delta equals the named proposals (or the API arguments); identities at existing leaves never change; a refusal leaves the complete fingerprint unchanged.",
   note="Commits with a changed identity in the update path are refused by OpenMLS itself before mdk's identity check is reached with the commit-builder API available here.", ref="5/C05"),
 "C06": dict(engine="vsim+adversary", technique="runtime monitoring: structure-aware hostile-input generation at four depths against a live victim client, panic/abnormal-exit observation in sharded child processes, before/after fingerprint oracle on every refusal (hostile inputs and ordinary histories)",
   text="Exploration: N hostile inputs (wrapper fields; correctly NIP-44-wrapped mutated MLS bytes; authentic MLS messages with hostile plaintext and unauthorised proposals/commits; welcome rumors, key-package events, every String parameter of the uniffi facade) are delivered to a victim in states idle / pending commit / pending proposals / inactive with a second group present. No call may panic (catch_unwind in the child, abnormal child exit seen by the parent) and every refusal must leave the fingerprint of every group, the group list and the pending welcomes unchanged. The same refusal oracle runs over ordinary simulator histories.",
   note="Third-party dependencies are built without debug assertions (OpenMLS debug_asserts on every AEAD failure), the mdk crates with them; SIGKILL/watchdog of a shard is inconclusive; the dedup/failure record is not observable state.", ref="5/C06"),
 "C07": dict(engine="vsim", technique="runtime monitoring: re-delivery probes inside simulator histories with before/after fingerprint comparison of every group of the client",
   text="Exploration: events that have taken effect at a client (stored message, applied or superseded commit, queued proposal, own echoes) are re-delivered 1-3 times at random later points and after the fixpoint; the complete fingerprint (record, relays, MLS, members, group data, pending proposals, messages with states) of every group must be unchanged.",
   note="The dedup/failure record is not part of the observable state (as the property words it); processed_at is excluded.", ref="5/C07"),
 "C08": dict(engine="vsim", technique="runtime monitoring: invariant hook evaluated after every single API step of simulator histories (stored record/relays vs MLS state, routing by the id in force)",
   text="Exploration: after every step (local operation or processed event, incl. rollbacks, echoes, immediate merges, welcomes, id rotations, relay changes, two groups sharing clients) the acting client's stored record and relay set are compared field by field with its MLS state and the id in force must resolve to the group.",
   note="Only groups in state Active are judged (as the property says).", ref="5/C08"),
 "C09": dict(engine="vstore", technique="runtime monitoring: frame/restore-condition monitor over complete store read-outs after every operation of generated snapshot/rollback histories (both backends)",
   text="Exploration: held on N generated operation sequences; after every single operation the complete observable read-out of the store is compared with the one before it (frame condition) and, on rollback, with the read-out recorded when the snapshot was taken (restore condition). Sampling of sequences, not a proof; right level because the property quantifies over operation histories and the deciding evidence is the observed store state.",
   note="Trusts the read API as the observation channel (every trait read method over a small key universe); snapshots only of existing groups; wall-clock snapshot timestamps not compared.", ref="5/C09"),
 "C10": dict(engine="vstore", technique="runtime monitoring: differential execution of generated operation histories on memory backend, SQLite backend and an executable reference model, comparing result classes and full read-outs",
   text="Exploration: held on N generated operation sequences; each operation's result class and periodically the complete read-out are compared between the two real backends and an independent ~300-line reference model of the storage contract.",
   note="Inside the intersection of both backends' documented limits; error wording not compared; LRU capacity never approached.", ref="5/C10"),
 "C11": dict(engine="vsim", technique="runtime monitoring: twin-run differential (never-restarted vs restarted-at-chosen-positions instance on a copy of the same SQLite file, fed the same events) comparing result class and complete fingerprint after every step",
   text="Exploration: on N twin segments the SQLite-backed subject's database is copied at a quiescent point (own pending commits, own Created messages, queued state inside); the copy is replayed with several restart sets (before every delivery, singletons, random subsets, after every applied commit) and must agree with the never-restarted twin on result class and full fingerprint after every delivery.",
   note="Clean shutdown only; wall-clock values (processed_at) are not compared and rumor timestamps are kept distinct so that the display order does not depend on them.", ref="5/C11"),
 "C12": dict(engine="vcrash", category="fault_enumeration", technique="runtime fault injection: child process killed with abort() at every storage statement boundary (tick hook H2) of 7 operation templates on a copy of the database, parent re-opens, checks loadability, re-delivers and compares with the uninterrupted twin; in-process error/panic injection at every labelled point inside the snapshot and restore transactions",
   text="Fault enumeration: every storage tick of every template instance (application message, proposal, commit, commit-with-rollback, process+accept welcome, create_message, self_update+merge) is used as a death point; after re-opening the database must open, every group must load, and re-delivery of the interrupted and all later events must end in the uninterrupted twin's fingerprint (receiver operations) or the operation must be recoverable with a peer following (own operations); injected errors and panics inside the two explicit transactions must leave group and snapshot set exactly as before.",
   note="Death = abort() before the statement at the cut executes; torn pages / power loss are SQLite's journal's business and out of scope; own operations are judged by recoverability, not by twin equality.", ref="5/C12"),
 "C13": dict(engine="vsim+files", technique="runtime monitoring: byte scanner over every file of the database directory (after every step and inside explicit transactions via tick hook) for a registry of secrets learnt during SQLCipher-backed histories, with an unencrypted positive control; constructor expectation matrix; barrier-synchronised concurrent first opens; PRAGMA observation through hook H3",
   text="Exploration: on N histories on an encrypted client no registered secret (canary message bodies incl. 20-50 KB ones, group name, MLS group id, nostr ids, exporter secrets, image key/nonce, database key) appears in any file in raw or hex form at any scan point, while the same scanner finds every class in an unencrypted control; constructors behave per the expectation table on plain / encrypted(k1,k2,keyring) / missing files, a refused open damages nothing, re-opening with the right key yields the same fingerprint; files are 0600 and created directories 0700; concurrent first opens end with one keyring key under which every successful opener's rows are visible.",
   note="A temp-file spill is not provoked (temp_store=MEMORY is observed through H3); the keyring is keyring-core's mock store; opens that lose the schema-migration race are information, not judged.", ref="5/C13"),
 "C14": dict(engine="vsim+capture", technique="runtime monitoring: tracing subscriber capturing every event of every level plus Display/Debug renderings of every error and processing result during a tour over all other workloads; offline scan against a registry of secrets learnt in the same scenario",
   text="Exploration: on N scenarios taken from the generators of C01-C07, C12, C13, C16 and the uniffi probes, every log record of an mdk_* target and every Display / Debug / alternate-Debug rendering of an Err or MessageProcessingResult is searched for the MLS group id, every nostr group id in force, exporter secrets, image key / nonce / upload seed and database keys in lower/upper hex, decimal byte-list and 8-byte window forms; Debug of the secret-holding configuration types is probed directly.",
   note="Dependencies that log through the `log` facade (openmls) are not captured by a tracing subscriber and are outside the statement (targets of the mdk crates); data carriers (Group, Welcome, UpdateGroupResult, GroupExporterSecret's group id) are not logs or errors.", ref="5/C14"),
 "C15": dict(engine="vsim+adversary", technique="runtime monitoring: round-trip oracles through the library's own encoders/decoders at sender, receiver and joiner, cross-checked by an independent hand-written TLS reader/writer; single-field mutation of valid encodings (forged OpenMLS group contexts, key-package events, welcome rumors, imeta tags) with accept/refuse oracle",
   text="Exploration: N generated group-data values are encoded by the library and decoded at creator, committer, receiver and joiner, compared with the intended value, the mirrored record and an independent TLS reader (which must re-encode to identical bytes); versions 1..65535 (sampled) round-trip through forged welcomes; every single-field mutation of the listed kinds is refused for the extension, key-package events, welcome rumors and imeta tags.",
   note="Upper-case `BASE64` as encoding value and duplicated tags are not in the property's list and are not judged.", ref="5/C15"),
 "C16": dict(engine="vsim+adversary", technique="runtime monitoring: invitation workload (valid welcome re-processed under same/fresh wrapper ids in every welcome state, accept/decline, forged welcomes built with OpenMLS by member/inviter/outsider) with before/after fingerprints of every group, stored-welcome comparison, joiner-vs-inviter state comparison and liveness probes of the existing group",
   text="Exploration: on N invitation sequences: re-processing returns the same stored welcome and changes nothing; no group is Active without accept_welcome; after accept the joiner's MLS state, members, group data, relays and mirrored record equal the inviter's post-commit state with self-update Required; no invitation changes an Active group's fingerprint and that group still processes its next message and commit; a stored welcome is never replaced.",
   note="wrapper_event_id of the stored welcome is not compared across wrapper ids; forged welcomes come from a throw-away OpenMLS group (MlsGroup::new_with_group_id) with hand-encoded group-data extension bytes.", ref="5/C16"),
 "C17": dict(engine="vsim", technique="runtime monitoring: encrypt/announce/commit/decrypt histories with per-receiver delivery orders, membership-based decrypt oracle (hash and byte equality), bit-flip and field tamper trials, key-separation set, group-image round trips through update_group_data",
   text="Exploration: on N files of every MIME family every member of the encrypting epoch decrypts to the published hash (and original bytes) 0-12 epochs later, whether it processed the announcing message in order or after up to 5 later commits; a member removed earlier and a member of another group fail; every flipped ciphertext or nonce bit and every changed field makes decryption fail; distinct tuples (hash, name, MIME, group, epoch, incl. a field-boundary shift) never share a key; group images round-trip through prepare_group_image_for_upload -> update_group_data -> receiver record -> decrypt_group_image (v2 and a hand-made v1 blob) and reject tampering with and without hash.",
   note="Image payloads are sanitised before hashing, so image round trips are judged by the published hash / decoded dimensions; cryptographic strength itself is not observable.", ref="5/C17"),
 "C18": dict(engine="vstore", technique="runtime monitoring: ordering/pagination oracle over generated message sets on both backends + last-message-pointer invariant after every step of simulator histories",
   text="Exploration: every listing produced for generated message sets with forced timestamp ties is compared with the documented total order computed independently; pages are concatenated and compared with the full listing; out-of-range limits must be refused.",
   note="Two halves in one command: storage-level ordering/pagination on both backends, and the last-message pointer + ordering after every step of simulator histories.", ref="5/C18"),
 "C20": dict(engine="vsim", technique="runtime monitoring: invariant hook after every step of simulator histories listing the stored rollback snapshots (count, epochs, commit ids vs the client's applied commits)",
   text="Exploration: after every step of histories with retention 1,2,3,5 the acting client's snapshots are listed: at most `retention`, one per epoch, all below the current epoch, each naming the commit applied at that epoch on the client's current branch, no gap above the oldest kept one; on start-up with time-to-live values around real snapshot ages exactly the snapshots younger than the TTL survive.",
   note="Snapshot names are parsed (snap_<gid>_<epoch>_<commit id>); the time-to-live half uses real snapshot ages (sleeps) and retries cases that cross a second boundary.", ref="5/C20"),
}

ALL = ["C%02d" % i for i in range(1, 21)]
NOT_YET = "check not built yet in this round (planned in DESIGN.md section 5); not claimed until its command exists and is silent on the unchanged tree"

def main():
    checks = []
    for pid in ALL:
        if pid not in CHECKS:
            continue
        c = CHECKS[pid]
        checks.append({
            "property_id": pid,
            "quick_cmd": f"./check {pid} --tier quick",
            "thorough_cmd": f"./check {pid} --tier thorough",
            "evidence_file": f"/verif/evidence/{pid}.json",
            "replay_cmd_template": f"./check {pid} --replay {{path}}",
            "engine": c["engine"],
            "level_claimed": {"category": c.get("category", "exploration"), "text": c["text"], "design_ref": "DESIGN.md section " + c["ref"]},
            "level_note": c["note"],
            "technique": c["technique"],
        })
    m = {
        "version": 1,
        "setup_cmd": "cd /verif/harness && CARGO_NET_OFFLINE=true cargo build --offline",
        "hooks": {
            "guard": "cargo feature `verif-hooks` (mdk-core, mdk-sqlite-storage), off by default",
            "enable": "the harness crate /verif/harness depends on /repo/crates/* by path with features = [\"verif-hooks\"] (plus the repo's own `debug-examples` and `mip04`); it is a separate workspace, so the repo's own builds never see the feature",
            "baseline_off_cmd": "cd /repo && cargo nextest run --workspace --no-fail-fast --test-threads 8 --offline || cargo test --workspace --no-fail-fast --offline",
            "source_commits": hooks,
            "add_only": True,
        },
        "engines": [
            {"name": "vstore", "path": "/verif/harness/src/vstore", "serves_properties": ["C09", "C10", "C18", "C19"], "kind_free_text": "storage-level operation language, generator, interpreter over real backends, full read-out, executable reference model"},
            {"name": "vcrash", "path": "/verif/harness/src/props/c12.rs", "serves_properties": ["C12"], "kind_free_text": "crash-point child process (abort at the k-th storage tick) + parent orchestrator + in-process transaction fault injection"},
            {"name": "vsim", "path": "/verif/harness/src/sim", "serves_properties": ["C01", "C02", "C03", "C04", "C05", "C06", "C07", "C08", "C11", "C16", "C18", "C20"], "kind_free_text": "world simulator: N real MDK clients (memory / SQLite), relay log, harness-chosen delivery schedules, pinned wrapper timestamps, oracle replica, per-step monitors"},
        ],
        "checks": checks,
        "notes": "All checks: exit 0 = held on what was observed or inconclusive (reason in evidence.coverage.inconclusive); exit 1 + VIOLATION line = violated; exit 2 = harness does not build. Known findings: /verif/known-findings.txt.",
        "not_applicable": [{"property_id": p, "reason": NOT_YET} for p in ALL if p not in CHECKS],
    }
    json.dump(m, open("/verif/MANIFEST.json", "w"), indent=1)
    print("wrote MANIFEST.json with", len(checks), "checks")

main()
