#!/usr/bin/env python3
"""Generates /verif/MANIFEST.json from the table below (kept in one place so it stays valid)."""
import json, subprocess, os

HOOK_COMMITS = subprocess.run(["git", "-C", "/repo", "log", "--format=%H %s"], capture_output=True, text=True).stdout.splitlines()
hooks = [l.split()[0] for l in HOOK_COMMITS if " verif-hooks:" in l]

CHECKS = {
 "C09": dict(engine="vstore", technique="runtime monitoring: frame/restore-condition monitor over complete store read-outs after every operation of generated snapshot/rollback histories (both backends)",
   text="Exploration: held on N generated operation sequences; after every single operation the complete observable read-out of the store is compared with the one before it (frame condition) and, on rollback, with the read-out recorded when the snapshot was taken (restore condition). Sampling of sequences, not a proof; right level because the property quantifies over operation histories and the deciding evidence is the observed store state.",
   note="Trusts the read API as the observation channel (every trait read method over a small key universe); snapshots only of existing groups; wall-clock snapshot timestamps not compared.", ref="5/C09"),
 "C10": dict(engine="vstore", technique="runtime monitoring: differential execution of generated operation histories on memory backend, SQLite backend and an executable reference model, comparing result classes and full read-outs",
   text="Exploration: held on N generated operation sequences; each operation's result class and periodically the complete read-out are compared between the two real backends and an independent ~300-line reference model of the storage contract.",
   note="Inside the intersection of both backends' documented limits; error wording not compared; LRU capacity never approached.", ref="5/C10"),
 "C18": dict(engine="vstore", technique="runtime monitoring: ordering/pagination oracle over generated message sets on both backends (storage half)",
   text="Exploration: every listing produced for generated message sets with forced timestamp ties is compared with the documented total order computed independently; pages are concatenated and compared with the full listing; out-of-range limits must be refused.",
   note="Storage-level half; the last-message-pointer half runs on simulator histories once the simulator lands.", ref="5/C18"),
}

ALL = ["C%02d" % i for i in range(1, 21)]
NOT_YET = "check not built yet in this round (planned in DESIGN.md section 5); not claimed until its command exists and is silent on the unchanged tree"

def main():
    checks = []
    for pid in ALL:
        if pid not in CHECKS:
            continue
        c = CHECKS[pid]
        checks.append({
            "property_id": pid,
            "quick_cmd": f"./check {pid} --tier quick",
            "thorough_cmd": f"./check {pid} --tier thorough",
            "evidence_file": f"/verif/evidence/{pid}.json",
            "replay_cmd_template": f"./check {pid} --replay {{path}}",
            "engine": c["engine"],
            "level_claimed": {"category": c.get("category", "exploration"), "text": c["text"], "design_ref": "DESIGN.md section " + c["ref"]},
            "level_note": c["note"],
            "technique": c["technique"],
        })
    m = {
        "version": 1,
        "setup_cmd": "cd /verif/harness && CARGO_NET_OFFLINE=true cargo build --offline",
        "hooks": {
            "guard": "cargo feature `verif-hooks` (mdk-core, mdk-sqlite-storage), off by default",
            "enable": "the harness crate /verif/harness depends on /repo/crates/* by path with features = [\"verif-hooks\"] (plus the repo's own `debug-examples` and `mip04`); it is a separate workspace, so the repo's own builds never see the feature",
            "baseline_off_cmd": "cd /repo && cargo nextest run --workspace --no-fail-fast --test-threads 8 --offline || cargo test --workspace --no-fail-fast --offline",
            "source_commits": hooks,
            "add_only": True,
        },
        "engines": [
            {"name": "vstore", "path": "/verif/harness/src/vstore", "serves_properties": ["C09", "C10", "C18", "C19"], "kind_free_text": "storage-level operation language, generator, interpreter over real backends, full read-out, executable reference model"},
        ],
        "checks": checks,
        "notes": "All checks: exit 0 = held on what was observed or inconclusive (reason in evidence.coverage.inconclusive); exit 1 + VIOLATION line = violated; exit 2 = harness does not build. Known findings: /verif/known-findings.txt.",
        "not_applicable": [{"property_id": p, "reason": NOT_YET} for p in ALL if p not in CHECKS],
    }
    json.dump(m, open("/verif/MANIFEST.json", "w"), indent=1)
    print("wrote MANIFEST.json with", len(checks), "checks")

main()
