#!/usr/bin/env python3
"""Regenerates the table of seeded changes in DESIGN.md (between the SEEDED-TABLE markers) from seeded/*/meta.json."""
import json, glob, os, re
rows = []
for d in sorted(glob.glob("/verif/seeded/*/")):
    m = json.load(open(d + "meta.json"))
    name = os.path.basename(d.rstrip("/"))
    v = m["verified_by_me"]
    esc = lambda t: str(t).replace("|", "\\|")
    checks = "; ".join(f"`{esc(k)}` → {esc(val)}" for k, val in v.get("checks_run", {}).items())
    rows.append(f"| `{name}` | {m['property']} | {esc(m['needs_to_manifest'])} | {', '.join(v.get('caught_by', [])) or '—'} | {checks} |")
table = "| seeded change (`/verif/seeded/…`) | property | needs, to manifest | caught by | what I ran |\n|---|---|---|---|---|\n" + "\n".join(rows)
p = "/verif/DESIGN.md"
s = open(p).read()
if "<!-- SEEDED-TABLE-BEGIN -->" in s:
    s = re.sub(r"<!-- SEEDED-TABLE-BEGIN -->.*<!-- SEEDED-TABLE-END -->", lambda _: "<!-- SEEDED-TABLE-BEGIN -->\n" + table + "\n<!-- SEEDED-TABLE-END -->", s, flags=re.S)
else:
    s = s.replace("SEEDED_TABLE", "<!-- SEEDED-TABLE-BEGIN -->\n" + table + "\n<!-- SEEDED-TABLE-END -->")
open(p, "w").write(s)
print(len(rows), "rows")
