#!/usr/bin/env python3
"""Summarise `vcheck` stderr: (regime, signature) -> occurrences + first scenario."""
import sys, re, collections
sig=None; rows=collections.OrderedDict()
for l in sys.stdin:
    l=l.rstrip()
    m=re.match(r'\s+signature: (.*)', l)
    if m: sig=m.group(1); continue
    m=re.match(r'\s+detail: \[regime (\w+), scenario (\d+)\]', l)
    if m and sig: cur=(m.group(1), sig, m.group(2)); continue
    m=re.match(r'\s+occurrences: (\d+)', l)
    if m and sig:
        rows[(cur[0],cur[1])]=(int(m.group(1)), cur[2]); sig=None
    if re.match(r'^(C\d\d |INCONC|KNOWN)', l): print(l)
for (r,s),(n,sc) in sorted(rows.items()): print(f"{n:5d}  first-regime={r:18s} scen={sc:5s} {s}")
