#!/bin/bash
# Multi-seed silence sweep: tools/sweep.sh <quick|thorough> <seed...>
# Builds the harness found next to this script once, then runs every property's check for every
# seed with a private verif-dir (so /verif/evidence is not touched) and prints one line per run.
# Env: PROPS="C01 C02 ..." to restrict; VERIF_SKIP_SANITIZERS=1 to skip the TSan/Miri passes of C19.
TIER=$1; shift
HERE="$(cd "$(dirname "$0")/.." && pwd)"
cd "$HERE/harness" && CARGO_NET_OFFLINE=true cargo build --offline >/dev/null 2>&1 || { echo "BUILD FAILED"; exit 2; }
OUT=${SWEEP_OUT:-$HERE/sweep-out}
PROPS=${PROPS:-C01 C02 C03 C04 C05 C06 C07 C08 C09 C10 C11 C12 C13 C14 C15 C16 C17 C18 C19 C20}
bad=0
for seed in "$@"; do
  D=$OUT/$TIER-$seed; mkdir -p $D/evidence $D/replays; cp $HERE/known-findings.txt $D/; ln -sfn $HERE/harness $D/harness
  for p in $PROPS; do
    s=$(date +%s)
    $HERE/harness/target/debug/vcheck $p --verif-dir $D --tier $TIER --seed $seed >$D/$p.out 2>$D/$p.err; rc=$?
    e=$(( $(date +%s) - s ))
    v=$(grep -c '^VIOLATION' $D/$p.out); i=$(grep -c 'INCONCLUSIVE' $D/$p.err)
    echo "seed=$seed $p rc=$rc ${e}s violations=$v known=$(grep -c '^KNOWN-FINDING' $D/$p.out) inconclusive=$i"
    if [ $rc -ne 0 ] || [ $v -ne 0 ]; then bad=1; grep -E '^  signature:' $D/$p.err | sort | uniq -c | head -5; fi
    if [ $i -ne 0 ]; then grep INCONCLUSIVE $D/$p.err | head -3; fi
  done
done
exit $bad
