#!/usr/bin/env python3
"""Print the part of a replay's trace that concerns one member: tools/trace.py <replay.json> <member> [all]"""
import json,sys,re
r=json.load(open(sys.argv[1])); c=sys.argv[2]; allm=len(sys.argv)>3
print(r['signature']); print(r['detail'])
for l in r['replay']['trace']:
    if (l.startswith('A ') and ('commit' in l or 'leave' in l)) or l.startswith('J') or l.startswith('R'):
        print(l)
    elif re.match(rf'^D m{c} ',l) and (allm or 'Commit by' in l or 'Proposal by' in l):
        print(l)
    elif l.startswith(f'  m{c} '):
        print(l)
